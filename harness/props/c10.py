"""C10 -- OpenFOAM output keeps content, drops private keys, carries the Foam header."""
from __future__ import annotations

import copy

import gen
import impl
import spec
from common import Ctx, dec, enc, same, reset_globals
from props import c01

ID = "C10"
RULE = ("dicts of the Foam value domain (C01's domain without double-quote characters) with `_`-prefixed keys sprinkled at every "
        "depth (also inside dicts that are list elements), through FoamFormatter+FoamParser and DictWriter+DictReader on .foam "
        "files and SDict.dump/load; compared: model fmtPlain(foam) bytes vs FoamFormatter.to_string and model parseNative vs "
        "FoamParser.parse_string; oracle: content preserved minus underscore keys, input unchanged, no single-quoted string in "
        "the text, banner + FoamFile block when an SDict is written; non-trivial = has an underscore key or a quoted string")
ASSUMPTIONS = c01.ASSUMPTIONS


def drop_underscore(v):
    if isinstance(v, dict):
        return {k: drop_underscore(x) for k, x in v.items() if not (isinstance(k, str) and k.startswith("_"))}
    if isinstance(v, list):
        return [drop_underscore(x) for x in v]
    return v


def has_underscore_key(v) -> bool:
    if isinstance(v, dict):
        return any((isinstance(k, str) and k.startswith("_")) or has_underscore_key(x) for k, x in v.items())
    if isinstance(v, list):
        return any(has_underscore_key(x) for x in v)
    return False


_SHARED = None


def oracle(ctx: Ctx, case: dict, d: dict) -> None:
    from dictIO import DictReader, DictWriter, FoamFormatter, FoamParser, SDict
    exp = spec.norm(drop_underscore(d))
    before = enc(d)
    arg = copy.deepcopy(d)
    try:
        text = FoamFormatter().to_string(arg)
    except Exception as e:  # noqa: BLE001
        ctx.violation("FoamFormatter.to_string raises", case, repr(e), "text"); return
    if enc(arg) != before:
        ctx.violation("FoamFormatter.to_string modified its argument", case, enc(arg), before)
    # one formatter object used for many dicts (state carried between calls), directly and through DictWriter(formatter=...)
    global _SHARED
    if _SHARED is None:
        _SHARED = FoamFormatter()
    try:
        t_shared = _SHARED.to_string(copy.deepcopy(d))
        with impl.scratch() as td:
            DictWriter.write(copy.deepcopy(d), td / "s.foam", mode="w", formatter=_SHARED)
            DictWriter.write(copy.deepcopy(d), td / "f.foam", mode="w", formatter=FoamFormatter())
            same_file = (td / "s.foam").read_text() == (td / "f.foam").read_text()
    except Exception as e:  # noqa: BLE001
        ctx.violation("a FoamFormatter that is used again raises", case, repr(e), "text"); return
    if t_shared != text or not same_file:
        ctx.violation("a FoamFormatter that was used before writes something else than a fresh one", case, t_shared, text)
    if "'" in text and not any_apostrophe(d):
        ctx.violation("foam output contains a single-quoted string", case, text, "no single quotes")
    for line in text.splitlines():
        parts = line.split()
        if any(p.startswith("'") for p in parts) and not any_apostrophe(d):
            ctx.violation("foam output contains a single-quoted string", case, text, "no single quotes")
    reset_globals()
    try:
        r1 = impl.plain(FoamParser().parse_string(text, SDict()))
    except Exception as e:  # noqa: BLE001
        ctx.violation("FoamParser raises on FoamFormatter output", case, repr(e), enc(exp)); return
    if not same(r1, exp):
        ctx.violation("foam string route: read back differs (beyond dropped underscore keys)", case, enc(r1), enc(exp))
    if has_key_starting_underscore(r1):
        ctx.violation("an underscore key survived in foam output", case, enc(r1), enc(exp))
    try:
        with impl.scratch() as td:
            reset_globals()
            DictWriter.write(copy.deepcopy(d), td / "x.foam", mode="w")
            r2 = spec.strip_placeholders(impl.plain(DictReader.read(td / "x.foam")))
            reset_globals()
            SDict(copy.deepcopy(d)).dump(td / "y.foam")
            text3 = (td / "y.foam").read_text()
            r3 = spec.strip_placeholders(impl.plain(SDict().load(td / "y.foam")))
    except Exception as e:  # noqa: BLE001
        ctx.violation("foam file route raises", case, repr(e), enc(exp)); return
    if not same(r2, exp):
        ctx.violation("foam DictWriter+DictReader: read back differs", case, enc(r2), enc(exp))
    ff = r3.pop("FoamFile", None)
    if not same(r3, exp):
        ctx.violation("foam dump+load: read back differs apart from the FoamFile entry", case, enc(r3), enc(exp))
    banner = FoamFormatter().make_default_block_comment()
    if not text3.startswith(banner.split("FoamFile")[0]) or "FoamFile" not in text3 or not isinstance(ff, dict):
        ctx.violation("an SDict written as .foam does not start with the OpenFOAM banner and FoamFile block", case, text3[:300], banner[:300])


def any_apostrophe(v) -> bool:
    if isinstance(v, dict):
        return any(any_apostrophe(x) for x in v.values())
    if isinstance(v, list):
        return any(any_apostrophe(x) for x in v)
    return isinstance(v, str) and "'" in v


def has_key_starting_underscore(v) -> bool:
    return has_underscore_key(v)


def process(ctx: Ctx, cases: list[dict]) -> None:
    c01.process(ctx, cases, fl="foam", expected_fn=oracle, suffix=".foam")


def run(ctx: Ctx) -> None:
    rng = ctx.rng
    cases = []
    for e in getattr(ctx, "fixed_witnesses", []):
        cases.append(e["witness"]); ctx.corpus_cases += 1
    for d in [{"k": "yes", "l": ["no", "yes", "y", "n", "t", "f"], "n": {"m": "no", "momentumPredictor": "yes"}}, {"a": [{"_z": 1, "y": 2}], "_b": 1}, {"_a": {"b": 1}, "c": {"_d": 2, "e": [[{"_f": 1, "g": "x y"}]]}}, {"k": "it's"}, {"k": ""}, {"k": "a;b"}]:
        cases.append({"kind": "dict", "d": enc(d)}); ctx.corpus_cases += 1
    for _ in range(ctx.n(15, 300)):
        d = gen.size_dict(rng)
        if c01.in_dom_keys_ok(d) and _strings_ok(d):
            cases.append({"kind": "dict", "d": enc(d)})
    for _ in range(ctx.n(900, 20000)):
        d = c01.gen_dict(rng, foam=True, underscore=rng.choice([0.0, 0.15, 0.3]))
        if c01.in_dom_keys_ok(d) and _strings_ok(d):
            cases.append({"kind": "dict", "d": enc(d)})
    process(ctx, cases)
    for c in ctx.samples:
        pass


def _strings_ok(v) -> bool:
    if isinstance(v, dict):
        return all(_strings_ok(x) for x in v.values())
    if isinstance(v, list):
        return all(_strings_ok(x) for x in v)
    if isinstance(v, str):
        return c01.str_in_dom(v, foam=True)
    if isinstance(v, float):
        return v == v and abs(v) != float("inf")
    return True


def replay(ctx: Ctx, case: dict) -> None:
    process(ctx, [case] * 8)       # several times: the shared formatter object carries state from call to call


shrink_violation = c01.make_shrinker("foam", process)
KNOWN_CLASSES = {"overflow_number_string": c01._d2_class}
WITNESSES = {"D2": c01._w2}
