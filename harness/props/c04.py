"""C04 -- scalar typing is total, deterministic and follows the documented type table."""
from __future__ import annotations

import re

import json

import itertools
import math

import gen
import impl
import spec
from common import Ctx, enc, same, shrink

ID = "C04"
ALPHABET = list("019+-.eE'\"\\_ trufalsonN") + ["١"]
RULE = ("exhaustive: all strings up to length L over the 24-symbol alphabet `019+-.eE'\"\\_ trufalsonN١` (L=3 quick plus a "
        "seeded 60k sample of L=4; L=4 thorough plus a sample of L=5), all strings <=3 over a 9-symbol alphabet with newline; "
        "random strings to length 40 over the generated classes; ints to 10^40, floats, bool, None through format_value; "
        "compared: model parseValue/parseKey/removeQuotes/formatScalar vs Parser.parse_value/parse_key/"
        "remove_quotes_from_string/NativeFormatter+FoamFormatter.format_value; oracle: never raises, equals the documented "
        "table (spec.classify), numeric results equal int()/float(), format->parse round trip, idempotence; "
        "non-trivial = not classified as plain unquoted string")
ASSUMPTIONS = ["float(lexeme) and repr(float) are Python's; the model carries float lexemes and never computes with them",
               "str.lower() maps no non-ASCII character into a letter of true/false/on/off/none/null (generated table + theorem)"]


def _canon_model(m):
    if isinstance(m, dict) and "f" in m:
        try:
            return {"f": repr(float(m["f"]))}
        except ValueError:
            return {"f": "INVALID:" + m["f"]}
    return m


def _enc_result(r):
    if isinstance(r, BaseException):
        return "raises:" + type(r).__name__
    return enc(r)


def oracle_parse(ctx: Ctx, c: dict, s: str, r) -> None:
    if isinstance(r, BaseException):
        ctx.violation("parse_value raises", c, repr(r), "a value"); return
    if "\n" in s or "\r" in s:
        return  # multi-line text is never a token; only the correspondence looks at it
    exp = spec.classify(s)
    if not same(exp, r):
        ctx.violation("parse_value does not follow the documented type table", c, enc(r), enc(exp)); return
    if isinstance(r, bool) or r is None or isinstance(r, str):
        pass
    elif isinstance(r, int):
        if r != int(s):
            ctx.violation("int result differs from int(s)", c, enc(r), enc(int(s)))
    elif isinstance(r, float):
        f = float(s)
        if not (r == f or (math.isnan(r) and math.isnan(f))):
            ctx.violation("float result differs from float(s)", c, enc(r), enc(f))
    if isinstance(r, str) and not any(q in r for q in "'\""):
        from dictIO.parser import Parser
        try:
            r2 = Parser().parse_value(r)
        except Exception as e:  # noqa: BLE001
            ctx.violation("re-classifying a classified quote-free string raises", c, repr(e), enc(r)); return
        # a quote-free string result may itself spell a typed value only if quotes were removed (documented)
        if r == s and not same(r2, r):
            ctx.violation("classifying an already classified quote-free value changes it", c, enc(r2), enc(r))


def process(ctx: Ctx, cases: list[dict]) -> None:
    from dictIO import FoamFormatter, NativeFormatter
    from dictIO.parser import Parser
    P = Parser(); NF = NativeFormatter(); FF = FoamFormatter()
    reqs = []
    for c in cases:
        k = c["kind"]
        if k == "parse":
            reqs.append({"op": "parse_value", "s": c["s"]})
        elif k == "key":
            reqs.append({"op": "parse_key", "s": c["s"]})
        elif k == "unq":
            reqs.append({"op": "remove_quotes", "s": c["s"]})
        elif k == "fmt":
            reqs.append({"op": "format_value", "fl": c["fl"], "v": c["v"]})
        else:
            reqs.append({"op": "parse_value", "s": "x"})      # keeps requests and cases aligned (oracle-only kinds)
    replies = [None] * len(cases) if ctx.oracle_only else ctx.driver(reqs)
    # second round for the model: parse what the model formatted (round trip inside the model is a theorem;
    # here it is the cross composition impl.parse(model.format(v)))
    for c, m in zip(cases, replies):
        k = c["kind"]
        if k == "parse":
            s = c["s"]
            try:
                r = P.parse_value(s)
            except Exception as e:  # noqa: BLE001
                r = e
            nontrivial = not (isinstance(r, str) and r == s)
            ctx.case(c, nontrivial, ("parse:" + (type(r).__name__ if not isinstance(r, BaseException) else "raises"),))
            oracle_parse(ctx, c, s, r)
            if m is not None and _canon_model(m) != _enc_result(r):
                ctx.disagree("parse_value", c, m, _enc_result(r))
        elif k == "key":
            s = c["s"]
            try:
                r = P.parse_key(s)
            except TypeError:
                r = "TypeError"
            except Exception as e:  # noqa: BLE001
                ctx.violation("parse_key raises something other than TypeError", c, repr(e), "key or TypeError"); continue
            ctx.case(c, True, ("key",))
            rj = r if r == "TypeError" else enc(r)
            if r != "TypeError":
                try:
                    pv = P.parse_value(s)
                    if not same(pv, r):
                        ctx.violation("parse_key differs from parse_value", c, rj, enc(pv))
                except Exception:  # noqa: BLE001
                    pass
            if m is not None and _canon_model(m) != rj:
                ctx.disagree("parse_key", c, m, rj)
        elif k == "unq":
            r = Parser.remove_quotes_from_string(c["s"])
            ctx.case(c, r != c["s"], ("unq",))
            if m is not None and m != r:
                ctx.disagree("remove_quotes_from_string", c, m, r)
        elif k == "fmtsub":
            import enum
            import numpy as np
            from common import dec
            v = dec(c["v"])
            F = NF if c["fl"] == "native" else FF
            ctx.case(c, True, ("fmtsub",))
            subs = []
            if isinstance(v, float):
                with np.errstate(all="ignore"):
                    f32 = np.float32(v)
                subs = [np.float64(v), f32 if float(f32) == v else np.float64(v), type("MyFloat", (float,), {})(v)]
            elif isinstance(v, int) and not isinstance(v, bool):
                subs = [type("MyInt", (int,), {})(v)] + ([enum.IntEnum("E", {"A": v}).A] if abs(v) < 2**31 else [])
            try:
                plain = F.format_value(v)
                for sv in subs:
                    t = F.format_value(sv)
                    if isinstance(sv, float) and float(sv) != v:
                        continue
                    if t != plain and not (isinstance(sv, np.floating) and float(t) == float(plain)):
                        ctx.violation("an instance of a subclass of int / float is not spelled like the number it is", c, {"type": type(sv).__name__, "text": t}, plain)
                    elif not same(P.parse_value(t), v):
                        ctx.violation("a formatted scalar is not classified back to the value it came from", c, {"type": type(sv).__name__, "text": t}, c["v"])
            except Exception as e:  # noqa: BLE001
                ctx.violation("format_value raises on an instance of a subclass of int / float", c, repr(e), "text")
        elif k == "fmtlist":
            # the writer's spelling of scalars that stand next to each other in one list (equal-valued numbers of different
            # type, repeated values): each item is spelled as format_value spells it alone, and reads back typed
            from common import dec
            from dictIO import NativeParser, FoamParser, SDict
            xs = dec(c["v"])
            F = NF if c["fl"] == "native" else FF
            ctx.case(c, True, ("fmtlist",))
            try:
                text = type(F)().to_string({"l": list(xs)})
                alone = [F.format_value(x) for x in xs]
                back = (NativeParser if c["fl"] == "native" else FoamParser)().parse_string(text, SDict()).get("l")
            except Exception as e:  # noqa: BLE001
                ctx.violation("writing / reading a list of scalars raises", c, repr(e), "list"); continue
            body = text[text.index("("):] if "(" in text else text
            toks = body.replace("(", " ").replace(")", " ").replace(";", " ").split()
            if toks != alone:
                ctx.violation("a scalar inside a list is not spelled as format_value spells it", c, toks, alone)
            elif not same(back, [x for x in xs]):
                ctx.violation("a list of scalars does not read back with the values and types written", c, enc(back), c["v"])
        elif k == "fmt":
            from common import dec
            v = dec(c["v"])
            F = NF if c["fl"] == "native" else FF
            try:
                t = F.format_value(v)
            except Exception as e:  # noqa: BLE001
                ctx.violation("format_value raises", c, repr(e), "text"); continue
            ctx.case(c, True, ("fmt:" + type(v).__name__,))
            if m is not None and m != t:
                ctx.disagree(f"{type(F).__name__}.format_value", c, m, t)
            if not isinstance(v, str):
                try:
                    back = P.parse_value(t)
                except Exception as e:  # noqa: BLE001
                    ctx.violation("parse_value(format_value(v)) raises", c, repr(e), c["v"]); continue
                ok = same(back, v) or (isinstance(v, float) and isinstance(back, float) and math.isnan(v) and math.isnan(back))
                if not ok:
                    ctx.violation("a formatted scalar is not classified back to the value it came from", c, enc(back), c["v"])
                # documented spellings
                if isinstance(v, bool) and t != ("true" if v else "false"):
                    ctx.violation("bool not spelled true/false", c, t, "true/false")
                if v is None and t != "NULL":
                    ctx.violation("None not spelled NULL", c, t, "NULL")
                if isinstance(v, (int, float)) and not isinstance(v, bool) and t != repr(v):
                    ctx.violation("number not in Python's shortest form", c, t, repr(v))


_LOOK = None


def _lookalikes() -> set:
    global _LOOK
    if _LOOK is not None:
        return _LOOK
    import unicodedata
    words = ["true", "false", "on", "off", "none", "null"]
    out = set()
    for cp in range(0x80, 0x110000):
        if 0xD800 <= cp <= 0xDFFF:
            continue
        ch = chr(cp)
        forms = {ch.lower(), ch.casefold(), ch.upper().lower(), unicodedata.normalize("NFKD", ch).lower(), unicodedata.normalize("NFKC", ch).casefold()}
        for f in forms:
            if 1 <= len(f) <= 3 and f.isascii() and f.isalpha():
                for w in words:
                    for W in (w, w.upper(), w.capitalize()):
                        i = W.lower().find(f)
                        while i >= 0:
                            out.add(W[:i] + ch + W[i + len(f):])
                            i = W.lower().find(f, i + 1)
    _LOOK = out
    return out


def _strings_upto(alpha, n):
    for k in range(n + 1):
        for t in itertools.product(alpha, repeat=k):
            yield "".join(t)


def run(ctx: Ctx) -> None:
    rng = ctx.rng
    cases = []
    for e in getattr(ctx, "fixed_witnesses", []):
        cases.append(e["witness"]); ctx.corpus_cases += 1
    for s in ["2024-01", "e5", "+", "5-5", "1e", "1.e-03", ".5", "5.", "-", "_", ".", "''", "'", "\"x'", "١٢", "1_0", " true", "NULL\n", "12\n", "'1'"]:
        cases.append({"kind": "parse", "s": s}); ctx.corpus_cases += 1
    L = 3 if ctx.tier == "quick" else 4
    if ctx.scale == 1.0:
        for s in _strings_upto(ALPHABET, L):
            cases.append({"kind": "parse", "s": s})
        ctx.exhaustive.append(f"parse_value on all strings of length <= {L} over the 24-symbol alphabet")
        for s in _strings_upto(list("1-.e't n") + ["\n"], 3):
            cases.append({"kind": "parse", "s": s})
            cases.append({"kind": "unq", "s": s})
        ctx.exhaustive.append("parse_value / remove_quotes on all strings of length <= 3 over `1-.e't n` + newline")
        for s in _strings_upto(list("'\"a\\ ") + ["\n"], 4):
            cases.append({"kind": "unq", "s": s})
        ctx.exhaustive.append("remove_quotes_from_string on all strings of length <= 4 over `'\"a\\ ` + newline")
    for _ in range(ctx.n(60000, 400000)):
        cases.append({"kind": "parse", "s": "".join(rng.choice(ALPHABET) for _ in range(L + 1))})
    for _ in range(ctx.n(15000, 150000)):
        r = rng.random()
        if r < 0.35:
            s = gen.text(rng)
        elif r < 0.55:
            s = gen.number_like(rng) + rng.choice(["", "", "0", "e", ".", " ", "5"])
        elif r < 0.7:
            s = rng.choice(["", " ", "'", '"']) + gen.boolnone_like(rng) + rng.choice(["", " ", "'", '"', "\t", " "])
        elif r < 0.85:
            s = repr(rng.choice([rng.random(), rng.uniform(-1e6, 1e6), rng.uniform(-1, 1) * 10 ** rng.randint(-300, 300), rng.randint(-10**20, 10**20)]))
            if rng.random() < 0.3:
                i = rng.randrange(len(s) + 1); s = s[:i] + rng.choice(ALPHABET) + s[i:]
        else:
            s = "".join(rng.choice(ALPHABET + gen.EXOTIC + list("Ttxyz:/;{}()")) for _ in range(rng.randint(1, 40)))
        cases.append({"kind": "parse", "s": s})
        if rng.random() < 0.2:
            cases.append({"kind": "key", "s": s})
        if rng.random() < 0.1:
            cases.append({"kind": "unq", "s": s})
    # look-alikes of the six words: every character whose lower / upper / casefold / compatibility form is made of ASCII
    # letters, put in place of those letters (ſ for s, ﬀ for ff, K (Kelvin) for k, fullwidth letters, …)
    for s_ in sorted(_lookalikes()):
        cases.append({"kind": "parse", "s": s_})
        if rng.random() < 0.2:
            cases.append({"kind": "parse", "s": " " + s_ + " "})
    # the six words with one character substituted by a character that lower-cases into ASCII
    if ctx.tier == "thorough":
        for w in ["true", "false", "on", "off", "none", "null"]:
            for i in range(len(w)):
                for cp in list(range(0x80, 0x250)) + [0x212A, 0x212B, 0x2126, 0x1E9E, 0xFB01, 0x130, 0x131, 0x17F]:
                    cases.append({"kind": "parse", "s": w[:i] + chr(cp) + w[i + 1:]})
    # formatting: every scalar type, both flavours
    vals = [True, False, None, 0, -1, 7, 10**40, -(10**40) + 3, 0.0, -0.0, 1.5, 1e-5, 1e22, 1e16, 5e-324, 1.7976931348623157e308, float("inf"), float("-inf"), float("nan")]
    for _ in range(ctx.n(6000, 100000)):
        r = rng.random()
        if r < 0.3:
            vals.append(rng.randint(-10**rng.randint(1, 40), 10**rng.randint(1, 40)))
        elif r < 0.7:
            vals.append(rng.uniform(-1, 1) * 10 ** rng.randint(-320, 308))
        elif r < 0.85:
            vals.append(float(rng.randint(-10**17, 10**17)))
        else:
            vals.append(gen.text(rng))
    for v in vals:
        for fl in ("native", "foam"):
            if isinstance(v, str) and fl == "foam" and '"' in v:
                continue
            cases.append({"kind": "fmt", "fl": fl, "v": enc(v)})
    nums = [v for v in vals if isinstance(v, (int, float)) and not isinstance(v, bool) and v == v and abs(v) != float("inf")]
    for v in rng.sample(nums, min(len(nums), ctx.n(150, 2000))) + [2.5, 1.0, -0.0, 1e16, 1e-7, 3, -7, 0, 10**20]:
        cases.append({"kind": "fmtsub", "fl": rng.choice(["native", "foam"]), "v": enc(v)})
    for _ in range(ctx.n(150, 3000)):
        xs = [rng.choice(nums + [0, 1, 2, -1, 10**16, True, False, None]) for _ in range(rng.randint(2, 6))]
        for x in list(xs):
            t = gen.numeric_twin(x)
            if t is not None and rng.random() < 0.7:
                xs.insert(rng.randint(0, len(xs)), t)
        xs += [x for x in xs[:2]]                      # repeated values
        cases.append({"kind": "fmtlist", "fl": rng.choice(["native", "foam"]), "v": enc(xs)})
    process(ctx, cases)


def replay(ctx: Ctx, case: dict) -> None:
    process(ctx, [case])


def shrink_violation(v: dict) -> dict:
    c = v["input"]
    if c.get("kind") != "parse":
        return v
    what = v["what"]

    def fails(s):
        x = Ctx(ID, "quick", 0, oracle_only=True)
        process(x, [{"kind": "parse", "s": s}])
        return any(y.get("what") == what for y in x.violations)
    s = shrink(c["s"], fails)
    x = Ctx(ID, "quick", 0, oracle_only=True)
    process(x, [{"kind": "parse", "s": s}])
    return next((y for y in x.violations if y.get("what") == what), v)


def _nonfinite(v: dict) -> bool:
    c = v["input"]
    return c.get("kind") == "fmt" and "f" in c["v"] and c["v"]["f"].lstrip("-") in ("inf", "nan")


def _w2() -> bool:
    from dictIO import NativeFormatter
    from dictIO.parser import Parser
    return isinstance(Parser().parse_value(NativeFormatter().format_value(float("inf"))), str)


def _d51(v: dict) -> bool:
    """a run of more decimal digits than int() converts (sys.get_int_max_str_digits(), 4300 by default)"""
    import sys
    lim = getattr(sys, "get_int_max_str_digits", lambda: 4300)() or 10 ** 9
    return bool(re.search(r"\d{%d,}" % (lim + 1), json.dumps(v.get("input"), default=repr)))


def _w51() -> bool:
    import sys
    lim = getattr(sys, "get_int_max_str_digits", lambda: 4300)() or 0
    if not lim:
        return False
    try:
        impl.NativeParser().parse_value("9" * (lim + 1))
    except ValueError:
        return True
    return False


KNOWN_CLASSES = {"nonfinite_float": _nonfinite, "more_digits_than_int_accepts": _d51}
WITNESSES = {"D2": _w2, "D51": _w51}
