"""C16 -- append mode never loses what is already in the file; overwrite mode replaces it."""
from __future__ import annotations

import copy
import itertools

import gen
import impl
import spec
from common import Ctx, canon_floats, dec, enc, enc_entries, same, reset_globals
from props import c01, c10

ID = "C16"
RULE = ("sequences of writes (modes a / w / unrecognised) of overlapping nested dicts (kind-consistent, value domain of C01) to one "
        "target, per format native / foam / json, the written object being a plain dict, a fresh SDict, or an SDict read / loaded "
        "from the target itself whose content was replaced (DictWriter.write and SDict.dump()); after every write DictReader.read(target) is compared with the fold "
        "stepW(None,(m,d)) = norm d, stepW(e,('a',d)) = merge(e, norm d), stepW(e,(other,d)) = norm d; for native and foam the bytes "
        "of the file after every write are compared with the Lean model writeStep; non-trivial = sequence with an append onto "
        "an existing file")
ASSUMPTIONS = ["JSON serialisation is json.dumps (not modelled; oracle only)"]

LEAF = ["a", "b", "c", "d"]
DICT = ["n", "m"]


def gen_d(rng, tag):
    d = {}
    for k in rng.sample(LEAF, rng.randint(0, 3)):
        d[k] = rng.choice([f"{tag}{k}", rng.randint(0, 99), f"{tag} x", True, None, 2.5, "1", "it's", "a;b", "", f"${k}Ref", f"${k}_inf * 2", f"${k}"])
    for k in rng.sample(DICT, rng.randint(0, 2)):
        sub = {kk: rng.choice([f"{tag}.{kk}", rng.randint(0, 9), [1, tag]]) for kk in rng.sample(["p", "q", "r"], rng.randint(0, 3))}
        if rng.random() < 0.3:
            sub["deep"] = {"z": tag}
        d[k] = sub
    if rng.random() < 0.5:
        d[f"only{tag}"] = [tag, {"in_list": tag}]
    return d


def fold(seq, foam=False, pre=None):
    cur = copy.deepcopy(pre)
    out = []
    for mode, d in seq:
        nd = spec.norm(c10.drop_underscore(d) if foam else d)
        if cur is not None and mode == "a":
            cur = spec.merge_first_wins_selfref(cur, nd)
        else:
            cur = nd
        out.append(copy.deepcopy(cur))
    return out


def _source_object(via: str, d: dict, target):
    """the object handed to the writer: a plain dict, a fresh SDict, or an SDict that knows the target as its own source
    file (read or loaded from it earlier, content replaced since) -- the written content is `d` in every case"""
    from dictIO import DictReader, SDict
    if via == "dict":
        return d
    if via == "proxy":
        # nested dicts handed over as read-only mappings (types.MappingProxyType): still mappings, merged key by key
        import types
        from dictIO import DictReader
        have = impl.plain(DictReader.read(target))

        def ro(v, h):
            # only where the file already has a dict under the same key (there the library merges key by key; a read-only
            # mapping that is *added* as a whole would be handed to the serialisers, which is outside the value domain)
            return {k: (types.MappingProxyType(ro(y, h[k])) if isinstance(y, dict) and isinstance(h.get(k), dict) and
                        all(not isinstance(z, dict) or isinstance(h[k].get(kk), dict) for kk, z in y.items()) else y)
                    for k, y in v.items()}
        return ro(d, have)
    if via == "sdict" or not target.exists():
        return SDict(d)
    s = DictReader.read(target) if via == "reread" else SDict().load(target)
    for k in list(s):
        del s[k]
    s.update(d)
    return s


def process(ctx: Ctx, cases: list[dict]) -> None:
    from dictIO import DictReader, DictWriter
    pending = []      # (case, step, request, expected text)
    for c in cases:
        fmt = c["fmt"]
        seq = [(m, dec(d)) for m, d in c["seq"]]
        pre = c.get("pre")            # a JSON target that exists before the sequence (hand-written: strings stay strings)
        exp = fold(seq, foam=(fmt == "foam"), pre=dec(pre) if pre else None)
        ctx.case(c, any(m == "a" for m, _ in seq[1:]), (fmt,) + tuple(sorted({m if m in ("a", "w") else "junk" for m, _ in seq})))
        texts = []
        try:
            with impl.scratch() as td:
                target = td / ("t" + {"native": "", "foam": ".foam", "json": ".json"}[fmt])
                if pre:
                    import json as _json
                    target.write_text(_json.dumps(dec(pre), indent=2))
                kept = []          # the dict objects handed to earlier writes: the caller goes on using (and changing) them
                for step, (mode, d) in enumerate(seq):
                    reset_globals()
                    for obj in kept:
                        for v in list(obj.values()):
                            if isinstance(v, dict):
                                v[f"changed_later_{step}"] = step
                                for kk in list(v):
                                    if isinstance(v[kk], (int, str)) and not isinstance(v[kk], bool) and not kk.startswith("changed_later"):
                                        v[kk] = f"changed{step}"
                            elif isinstance(v, list):
                                v.append(f"changed_later_{step}")
                    via = (c.get("via") or [])[step] if step < len(c.get("via") or []) else "dict"
                    if via == "proxy" and not (mode == "a" and target.exists()):
                        via = "dict"          # read-only mappings are exercised where the library merges them (append onto a file)
                    src = _source_object(via, copy.deepcopy(d), target)
                    if via == "dump" and mode == "a":
                        # SDict.dump() onto its own source file (append is the default)
                        src.dump() if getattr(src, "source_file", None) is not None else src.dump(target)
                    else:
                        DictWriter.write(src, target, mode=mode)
                        if via == "dict" and isinstance(src, dict):
                            kept.append(src)
                    if fmt != "json":
                        texts.append(target.read_text())
                    reset_globals()
                    r = spec.strip_placeholders(impl.plain(DictReader.read(target)))
                    r.pop("FoamFile", None) if fmt == "foam" else None
                    if not same(r, exp[step]):
                        what = ("append lost or changed something that was in the file" if mode == "a" and step > 0 else
                                "file does not contain exactly the new dict after a non-append write")
                        ctx.violation(what, c, enc(r), enc(exp[step]), replay={**c, "seq": c["seq"][: step + 1]})
                        break
        except Exception as e:  # noqa: BLE001
            ctx.violation("write sequence raises", c, repr(e), "no exception"); continue
        if ctx.oracle_only or fmt == "json":
            continue
        # model: every step is replayed through writeStep on the bytes the implementation left behind (equal to the model's
        # own previous output as long as no disagreement has been reported for this sequence)
        for step, (mode, d) in enumerate(seq):
            if step >= len(texts):
                break
            if ((c.get("via") or ["dict"] * len(seq))[step]) != "dict":
                continue        # an SDict is written with its header and comment tables: bytes compared for plain dicts only
            pending.append((c, step, {"op": "write_step", "fl": fmt, "existing": texts[step - 1] if step else None, "mode": mode,
                                      "e": enc_entries(d), "start": -1}, texts[step]))
    if pending:
        bad = set()
        for (c, step, _, want), m in zip(pending, ctx.driver([p[2] for p in pending])):
            if id(c) in bad:
                continue
            if not (isinstance(m, dict) and "text" in m):
                ctx.unsupported += 1; bad.add(id(c))
            elif m["text"] != want:
                ctx.disagree(f"bytes of the target after write #{step} (mode {c['seq'][step][0]!r})", {**c, "seq": c["seq"][: step + 1]}, m["text"], want)
                bad.add(id(c))


def canon_model_floats(d):
    return d


def gen_case(rng, fmt, n=None):
    n = n or rng.randint(1, 6)
    return {"kind": "seq", "fmt": fmt, "seq": [[rng.choice(["a", "a", "a", "w", "w", "x", "", "A", "a\n", "w\n", " a", "a ", "aw", "wa", "append", "a+", "\na", "а"]), enc(gen_d(rng, f"W{i}"))] for i in range(n)],
            "via": [rng.choice(["dict", "dict", "sdict", "reread", "load", "dump", "proxy"]) for _ in range(n)]}


def run(ctx: Ctx) -> None:
    rng = ctx.rng
    cases = []
    for e in getattr(ctx, "fixed_witnesses", []):
        if isinstance(e.get("witness"), dict) and e["witness"].get("kind") == "api":
            from props import api as _api          # a history of API calls kept from a seeded change
            _api.process(ctx, [e["witness"]], oracles=True); ctx.corpus_cases += 1
            continue
        cases.append(e["witness"]); ctx.corpus_cases += 1
    for fmt in ("native", "foam", "json"):
        cases.append({"kind": "seq", "fmt": fmt, "seq": [["w", enc({"k": 'x "b"' if fmt != "foam" else "x b", "n": {"p": 1}})], ["a", enc({"k": 2, "n": {"q": 2}, "z": "'"})]]})
        ctx.corpus_cases += 1
        for _ in range(ctx.n(70, 1500)):
            cases.append(gen_case(rng, fmt))
        if fmt == "json":
            for _ in range(ctx.n(25, 400)):
                c = gen_case(rng, fmt)
                c["pre"] = enc({"version": "1.0", "build": "0012", "zip": "01234", "telemetry": "off", "ids": ["007", "042"], "flag": "TRUE",
                                "nothing": "none", "n": {"p": "1e3", "keep": "text"}, rng.choice(["a", "b", "zz"]): rng.choice(["5", "x", 5])})
                cases.append(c)
    if ctx.tier == "thorough" and ctx.scale == 1.0:
        for fmt in ("native", "json"):
            for modes in itertools.chain.from_iterable(itertools.product(["a", "w", "zz"], repeat=k) for k in range(1, 5)):
                cases.append({"kind": "seq", "fmt": fmt, "seq": [[m, enc(gen_d(rng, f"E{i}"))] for i, m in enumerate(modes)]})
        ctx.exhaustive.append("all mode sequences of length <= 4 over {a, w, junk}")
    process(ctx, cases)
    # histories of API calls (read / write / dump / parse with order and append modes, files with includes and comments)
    # against the world model, with the direct oracles: sorted after order=True, nothing lost by an append
    from props import api
    api.run(ctx, 80, 2000, oracles=True)


def replay(ctx: Ctx, case: dict) -> None:
    if case.get("kind") == "api":
        from props import api
        api.process(ctx, [case], oracles=True); return
    process(ctx, [case])


KNOWN_CLASSES: dict = {}
WITNESSES: dict = {}
