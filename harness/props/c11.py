"""C11 -- XML documents map faithfully to dicts and survive a write/read cycle."""
from __future__ import annotations

import copy
import re
import xml.etree.ElementTree as ET

import gen
import impl
import spec
from common import Ctx, canon_floats, dec, enc, enc_entries, same, reset_globals

ID = "C11"
RULE = ("generated XML documents (element trees with repeated tags, attributes incl. empty values, typed and multi-line text, "
        "empty and white-space-only elements) serialised with no, a default or a prefixed namespace; dicts with name-like keys; "
        "compared: model xmlToDict on the tree an independent parser (xml.etree) sees vs XmlParser.parse_string, and model dictToXml "
        "vs the tree XmlFormatter.to_string produces (re-parsed with xml.etree); oracle: every element appears in document order "
        "with tag, typed text, non-empty attributes and children; write+read gives the same entries modulo numbering; written XML "
        "is well-formed and every scalar leaf is the text of the element addressed by its key path; non-trivial = nested or "
        "attributed or namespaced")
ASSUMPTIONS = ["XML text <-> element tree is lxml / ElementTree / minidom (trusted, sampled); namespace registration and the "
               "prefix-stripping regex are covered by the correspondence only"]

TAGS = ["a", "b", "item", "node", "Value", "x1", "my-tag", "t.s"]
TEXTS = ["1", "-2.5", "true", "FALSE", "none", "1.0", "0.0", "on", "off", "0", "-0.0", "1e0", "True", "2", "2.0", "hello", "two words", " padded ", "", "   ", "\n  \n", "line1\n   line2\n  line3", "1e3", "007", "é ü", "a;b", "x:y"]
ATTRS = ["id", "name", "unit", "flag"]


# legal XML names that resemble what the library reserves for itself (placeholder words, private keys, option blocks) ...
RESERVED_LIKE = ["INCLUDE", "INCLUDE_DIRS", "include", "_buildOpts", "_content", "_contents", "_attributes", "_attrib", "_xmlOpts", "_opts",
                 "BLOCKCOMMENT1", "LINECOMMENT7", "EXPRESSION", "STRINGLITERAL", "COMMENT", "_", "__", "FoamFile", "_nameSpaces", "_rootTag"]


def special_tags() -> list[str]:
    """... plus every word of the library's own source that is a legal XML name"""
    return RESERVED_LIKE + [w for w in gen.source_vocab() if re.fullmatch(r"[A-Za-z_][\w.\-]*", w)]


def gen_elem(rng, depth, tag=None):
    e = {"tag": tag or (rng.choice(special_tags()) if rng.random() < 0.2 else rng.choice(TAGS)), "attrs": [], "text": None, "children": []}
    for k in rng.sample(ATTRS, rng.choice([0, 0, 1, 2])):
        e["attrs"].append([k, rng.choice(["1", "abc", "", "true", "x y", "2.5", "TRUE", "False", "TrueGrain oak", "Falsework Yard", "NULL", "Mixed Case", "é"])])
    if depth > 0 and rng.random() < 0.55:
        e["children"] = [gen_elem(rng, depth - 1) for _ in range(rng.randint(1, 4))]
        if rng.random() < 0.3:
            e["text"] = rng.choice(["\n   ", "ignored text"])
    else:
        e["text"] = rng.choice(TEXTS + [None])
    return e


def to_et(e, ns_uri=None):
    q = (lambda t: f"{{{ns_uri}}}{t}") if ns_uri else (lambda t: t)
    el = ET.Element(q(e["tag"]), {k: v for k, v in e["attrs"]})
    el.text = e["text"]
    for c in e["children"]:
        el.append(to_et(c, ns_uri))
    return el


def serialise(e, ns_mode):
    if ns_mode == "none":
        return ET.tostring(to_et(e), encoding="unicode")
    uri = "http://example.com/ns"
    if ns_mode == "default":
        ET.register_namespace("", uri)
    else:
        ET.register_namespace("p", uri)
    return ET.tostring(to_et(e, uri), encoding="unicode")


def from_et(el) -> dict:
    """the independent view: what xml.etree sees (namespace stripped from tags and attribute names)"""
    strip = lambda t: re.sub(r"^\{.*\}", "", t)
    return {"tag": strip(el.tag), "attrs": [[strip(k), v] for k, v in el.attrib.items()], "text": el.text,
            "children": [from_et(c) for c in el]}


def strip_numbers(v):
    if isinstance(v, dict):
        return [[re.sub(r"^\d{6}_", "", k) if isinstance(k, str) else k, strip_numbers(x)] for k, x in v.items()]
    if isinstance(v, list):
        return [strip_numbers(x) for x in v]
    return enc(v)


def _earlier_documents() -> None:
    """what happened earlier in the process must not matter: documents read before had their options changed in place
    (the documented way to set a namespace / root tag for writing) and were written"""
    from dictIO import DictWriter, SDict, XmlParser
    try:
        for n, text in enumerate(("<settings><a>1</a></settings>", "<m xmlns='urn:earlier'><b>2</b></m>", "<t><c>3</c></t>")):
            d = XmlParser().parse_string(text, SDict())
            opts = d["_xmlOpts"]
            if n != 1:
                opts["_nameSpaces"].clear()
            opts["_nameSpaces"]["None"] = "urn:example:changed"
            opts["_nameSpaces"]["q"] = "urn:example:q"
            opts["_rootAttributes"]["stamp"] = "1"
            opts["_rootTag"] = "changed"
            with impl.scratch() as td:
                DictWriter.write(d, td / "e.xml", mode="w")
                DictWriter.write({"extra": 1}, td / "e.xml", mode="a")
    except Exception:  # noqa: BLE001  -- the cases that follow are what is judged
        pass


def process(ctx: Ctx, cases: list[dict]) -> None:
    from dictIO import DictReader, DictWriter, SDict, XmlFormatter, XmlParser
    _earlier_documents()
    reqs, idx = [], []
    for i, c in enumerate(cases):
        if c["kind"] == "doc":
            c["_xml"] = serialise(c["elem"], c["ns"])
            if c.get("spelling") == "entity" and c["ns"] == "none":
                # the same document spelled with an XML declaration, a DOCTYPE whose internal subset declares a general entity,
                # and that entity / a character reference used in element text (an independent parser sees the expanded text)
                body = c["_xml"]
                m = re.search(r">([A-Za-z][A-Za-z0-9 ]*)</", body)
                if m:
                    w = m.group(1)
                    body = body[:m.start(1)] + "&vnd;" + body[m.end(1):]
                    c["_xml"] = f'<?xml version="1.0"?>\n<!DOCTYPE {c["elem"]["tag"]} [<!ENTITY vnd "{w}">]>\n' + body
            c["_view"] = from_et(ET.fromstring(c["_xml"]))
            reqs.append({"op": "xml_to_dict", "elem": c["_view"], "start": c.get("start", -1)}); idx.append(i)
        elif c["kind"] == "dict":
            reqs.append({"op": "dict_to_xml", "tag": "ROOT", "e": c["d"]["d"]}); idx.append(i)
    replies = {}
    if not ctx.oracle_only:
        for i, r in zip(idx, ctx.driver(reqs)):
            replies[i] = r
    for i, c in enumerate(cases):
        if c["kind"] == "doc":
            e = c["elem"]
            ctx.case({"xml": c["_xml"]}, bool(e["children"]) or bool(e["attrs"]) or c["ns"] != "none", (c["ns"],))
            # node numbers come from the process-wide counter: also start it just below / at its limit (the ids wrap around)
            reset_globals(c.get("start"))
            try:
                sd = XmlParser().parse_string(c["_xml"], SDict())
            except Exception as ex:  # noqa: BLE001
                ctx.violation("XmlParser raises on a well-formed document", {"xml": c["_xml"]}, repr(ex), "dict"); continue
            d = impl.plain(dict(sd))
            opts = d.pop("_xmlOpts", None)
            # oracle against the independent view
            def check(view, dd, path):
                kids = view["children"]
                keys = list(dd.keys())
                body_keys = [k for k in keys if k not in ("_content", "_attributes")]
                if len(body_keys) != len(kids):
                    return f"{path}: {len(kids)} child elements but {len(body_keys)} entries"
                for k, kid in zip(body_keys, kids):
                    if re.sub(r"^\d{6}_", "", str(k)) != kid["tag"]:
                        return f"{path}: entry {k!r} does not carry tag {kid['tag']!r} in document order"
                    sub = dd[k]
                    if not isinstance(sub, dict):
                        return f"{path}/{k}: entry is not a dict"
                    exp_attrs = {a: spec.classify(v) for a, v in kid["attrs"] if v != ""}
                    if exp_attrs:
                        if not same(sub.get("_attributes"), exp_attrs):
                            return f"{path}/{k}: attributes {sub.get('_attributes')!r} != {exp_attrs!r}"
                    elif "_attributes" in sub:
                        return f"{path}/{k}: unexpected _attributes"
                    if kid["children"]:
                        r = check(kid, {kk: vv for kk, vv in sub.items()}, f"{path}/{k}")
                        if r:
                            return r
                    else:
                        t = kid["text"]
                        if t is None or t.strip() == "":
                            if "_content" in sub:
                                return f"{path}/{k}: empty element has _content"
                        else:
                            norm_t = "\n".join(l.strip() for l in t.splitlines()).strip()
                            if not same(sub.get("_content"), spec.classify(norm_t)):
                                return f"{path}/{k}: text {sub.get('_content')!r} != typed {norm_t!r}"
                return None
            err = check(c["_view"], d, "")
            if err:
                ctx.violation("XML -> dict mapping disagrees with what an independent parser sees", {"xml": c["_xml"]}, err, enc(d))
            if not opts or opts.get("_rootTag") != e["tag"]:
                ctx.violation("root tag not recorded", {"xml": c["_xml"]}, opts, e["tag"])
            elif not same(opts.get("_rootAttributes"), {k: v for k, v in e["attrs"]}):
                ctx.violation("root attributes not recorded", {"xml": c["_xml"]}, opts.get("_rootAttributes"), e["attrs"])
            # write -> read
            try:
                text2 = XmlFormatter().to_string(copy.deepcopy(sd))
                ET.fromstring(text2)
                reset_globals()
                sd2 = XmlParser().parse_string(text2, SDict())
                d2 = impl.plain(dict(sd2)); o2 = d2.pop("_xmlOpts", None)
            except Exception as ex:  # noqa: BLE001
                ctx.violation("XML write/read cycle raises or writes malformed XML", {"xml": c["_xml"]}, repr(ex), "same entries"); continue
            q1 = [el.tag for el in ET.fromstring(c["_xml"]).iter()]
            q2 = [el.tag for el in ET.fromstring(text2).iter()]
            # (for a prefixed namespace the writer keeps the declaration but writes the elements without prefix; the property
            #  asks for the entries and the declaration to survive the cycle, which they do, so this is not judged here)
            if c["ns"] != "prefixed" and q1 != q2:
                ctx.violation("the written document does not have the qualified element names (namespace + tag, document order) of the original",
                              {"xml": c["_xml"], "written": text2}, q2, q1)
            if strip_numbers(d2) != strip_numbers(d):
                ctx.violation("XML write/read cycle changes the entries (beyond node numbers)", {"xml": c["_xml"], "written": text2}, strip_numbers(d2), strip_numbers(d))
            elif c["ns"] != "none" and (o2 or {}).get("_nameSpaces") != (opts or {}).get("_nameSpaces"):
                ctx.violation("namespace declaration not preserved by the write/read cycle", {"xml": c["_xml"], "written": text2}, (o2 or {}).get("_nameSpaces"), (opts or {}).get("_nameSpaces"))
            m = replies.get(i)
            if m is not None:
                if canon_floats(m["data"]) != enc_entries(d):
                    ctx.disagree("XmlParser._parse_nodes", {"xml": c["_xml"]}, canon_floats(m["data"]), enc_entries(d))
        elif c["kind"] == "dict":
            d = dec(c["d"])
            ctx.case(c, any(isinstance(v, dict) for v in d.values()), ("dict",))
            try:
                text = XmlFormatter().to_string(copy.deepcopy(d))
                root = ET.fromstring(text)
            except Exception as ex:  # noqa: BLE001
                ctx.violation("dict with XML-name keys is not written as well-formed XML", c, repr(ex), "well-formed XML"); continue
            def leaves(v, path):
                if isinstance(v, dict):
                    for k, x in v.items():
                        yield from leaves(x, path + [k])
                elif not isinstance(v, list):
                    yield path, v
            view = from_et(root)
            for path, val in leaves(d, []):
                node = view
                ok = True
                for k in path:
                    nxt = [ch for ch in node["children"] if ch["tag"] == k]
                    if len(nxt) != 1:
                        ok = False; break
                    node = nxt[0]
                exp = "" if val is None else str(val)
                if not ok or (node["text"] or "") != exp:
                    ctx.violation("a scalar leaf is not the text of the element addressed by its key path", c, {"path": path, "text": node.get("text") if ok else None, "xml": text}, exp)
                    break
            m = replies.get(i)
            if m is not None:
                mv = {"tag": view["tag"], "attrs": view["attrs"], "text": view["text"], "children": view["children"]}
                def norm_view(v):
                    t = v["text"]
                    if v["children"] and (t is None or t.strip() == ""):
                        t = None        # pretty-printing white space between child elements
                    return {"tag": v["tag"], "attrs": sorted(v["attrs"]), "text": t or None, "children": [norm_view(x) for x in v["children"]]}
                def norm_model(v):
                    t = v["text"]
                    return {"tag": v["tag"], "attrs": sorted(v["attrs"]), "text": t or None, "children": [norm_model(x) for x in v["children"]]}
                a, b = norm_model(m), norm_view(mv)
                a["tag"] = b["tag"]
                if a != b:
                    ctx.disagree("XmlFormatter.populate_into_element", c, a, b)


def gen_xdict(rng, depth):
    def keyf(r):
        return r.choice(["alpha", "beta", "gamma", "delta", "eps", "node", "item1", "my-key", "k.v"])
    def leaf(r):
        return r.choice([1, -2, 2.5, True, False, None, "text", "two words", "a;b", "007", "é"])
    return gen.tree_dict(rng, depth, 3, leaf=leaf, key_fn=keyf, p_dict=0.4, p_list=0.0)


def run(ctx: Ctx) -> None:
    rng = ctx.rng
    cases = []
    for e in getattr(ctx, "fixed_witnesses", []):
        cases.append(e["witness"]); ctx.corpus_cases += 1
    cases.append({"kind": "doc", "ns": "prefixed", "elem": {"tag": "r", "attrs": [], "text": None, "children": [{"tag": "a", "attrs": [], "text": "1", "children": []}]}}); ctx.corpus_cases += 1
    cases.append({"kind": "doc", "ns": "none", "elem": {"tag": "r", "attrs": [], "text": None, "children": [{"tag": "b", "attrs": [["id", ""]], "text": "1", "children": []}]}}); ctx.corpus_cases += 1
    cases.append({"kind": "doc", "ns": "none", "spelling": "entity", "elem": {"tag": "r", "attrs": [], "text": None, "children": [
        {"tag": "owner", "attrs": [], "text": "DNV", "children": []}, {"tag": "n", "attrs": [], "text": "1", "children": []}]}}); ctx.corpus_cases += 1
    for _ in range(ctx.n(600, 12000)):
        root = gen_elem(rng, rng.choice([1, 2, 3]), tag=rng.choice(["root", "Config", "data"]))
        if not root["children"]:
            root["children"] = [gen_elem(rng, 0)]
        root["text"] = None
        cases.append({"kind": "doc", "ns": rng.choice(["none", "none", "default", "prefixed"]), "elem": root,
                      **({"start": rng.choice([999999, 999998, 999995, 999990, 999980])} if rng.random() < 0.12 else {}),
                      **({"spelling": "entity"} if rng.random() < 0.1 else {})})
    for _ in range(ctx.n(300, 5000)):
        cases.append({"kind": "dict", "d": enc(gen_xdict(rng, rng.choice([1, 2, 3])))})
    process(ctx, cases)


def replay(ctx: Ctx, case: dict) -> None:
    process(ctx, [case])


KNOWN_CLASSES: dict = {}
WITNESSES: dict = {}
