"""C12 -- comments and include directives survive read -> write, and can be switched off."""
from __future__ import annotations

import re

import gen
import impl
import spec
from common import Ctx, canon_floats, dec, enc, same, reset_globals
from props import c01, c02

ID = "C12"
RULE = ("native sources with line and block comments of arbitrary text (quotes, braces, semicolons, `$`, backslashes, URLs, regex "
        "escapes) at statement boundaries of every nesting level, and #include directives (plain, quoted, sub-directory, "
        "backslash paths; existing and missing targets), read with comments on and off; compared: model parseNative+fmtSD vs "
        "NativeFormatter.to_string(DictReader.read(src)) bytes; oracle: every comment text in the output, per-level order of line "
        "comments, header rule, directives re-written and naming the same file, comments=False returns no comment entry and the "
        "same data; non-trivial = source has a comment or include below top level or with special characters")
ASSUMPTIONS = c02.ASSUMPTIONS + ["an include directive occupies its own line (a trailing line comment on that line is not supported)"]

LC_TEXTS = ["c", "a comment", "x; y", "{ brace", "} close", "say 'hi'", '"q"', "$var", "https://example.com/x", "k v;", "( 1 2 )", "é ж",
            "back\\slash", "\\1", "\\g<0>", "a\\nb", "", " ", "100%", "#include 'x'", "tab\there", "*", "**/", "/*"]
BC_TEXTS = [" c ", "a; b", " { } ", "*", " 'q' ", ' "d" ', " $x ", "\n multi\n line \n", " see http://x.y ", "", " back\\slash ", " \\1 ",
            " C++ ", "\n *  -*- C++ -*-\n *  project header\n ", "\n  my own header\n  (C++ syntax)\n", "** stars **", " k v; ", " page 1 \x0c page 2 ", " a\x0bb ", " x\u2028y ", " u\x85v ", " don't ", ' 5" ']
WS_TWINS = [(" - case", "   - case"), (" x = 1", " x  =  1"), (" units: m s ", " units:  m   s "), (" a\tb", " a b"), ("t  1", "t 1")]
INCLUDES = ["inc1", "sub/inc2", "./inc1", "../up", "missing", "sub\\win", "with space", "d.ir/f.dict", "é/f"]


def gen_comment(rng):
    if rng.random() < 0.55:
        return {"i": "lineC", "text": "//" + rng.choice(LC_TEXTS)}
    return {"i": "blockC", "text": "/*" + rng.choice(BC_TEXTS) + "*/"}


def gen_items(rng, depth, top=True, lstd=False):
    items, used = [], set()
    for _ in range(rng.randint(1, 5)):
        r = rng.random()
        if r < 0.3:
            if rng.random() < 0.12:
                # two different comments on one level whose texts differ only in the amount of white space inside them
                a, b = rng.choice(WS_TWINS)
                if rng.random() < 0.5:
                    items.append({"i": "lineC", "text": "//" + a}); items.append({"i": "lineC", "text": "//" + b})
                else:
                    items.append({"i": "blockC", "text": "/*" + a + "*/"}); items.append({"i": "blockC", "text": "/*" + b + "*/"})
                continue
            items.append(gen_comment(rng)); continue
        if top and r < 0.4:
            name = rng.choice(INCLUDES)
            if any(it["i"] == "incl" and it["name"] == name for it in items):
                continue          # the same file included twice at one level: known finding D33 (C03)
            q = rng.choice(["", "'", '"']) if " " not in name else rng.choice(["'", '"'])
            items.append({"i": "incl", "name": name, "q": q}); continue
        k = gen.word(rng)
        if k in used:
            continue
        used.add(k)
        if depth <= 0 or rng.random() < 0.55:
            items.append({"i": "kv", "k": k, "v": c02.gen_lit(rng)})
        elif rng.random() < 0.7:
            items.append({"i": "sub", "k": k, "items": gen_items(rng, depth - 1, top=False, lstd=lstd)})
        elif lstd and rng.random() < 0.5:
            # a list whose items are dicts, with line comments at the statement boundaries inside those dicts
            ds = []
            for _ in range(rng.randint(1, 3)):
                inner = [x for x in gen_items(rng, 0, top=False) if x["i"] != "blockC"]
                ds.append(inner)
            items.append({"i": "lstd", "k": k, "ds": ds})
        else:
            items.append({"i": "lst", "k": k, "xs": [c02.gen_elem(rng, 0) for _ in range(rng.randint(0, 4))]})
    return items


def render(rng, items, level=0) -> str:
    ind = "    " * level
    out = []
    for it in items:
        if it["i"] == "kv":
            out.append(f"{ind}{it['k']}{rng.choice([' ', '   ', chr(9)])}{c02.toks_lit(it['v'])[0][1]};" + rng.choice(["\n", "\n", " "]))
        elif it["i"] == "sub":
            out.append(f"{ind}{it['k']}\n{ind}{{\n" + render(rng, it["items"], level + 1) + f"\n{ind}}}\n")
        elif it["i"] == "lst":
            out.append(f"{ind}{it['k']} ( " + " ".join(t for x in it["xs"] for _, t in c02.toks_elem(x)) + " );\n")
        elif it["i"] == "lstd":
            out.append(f"{ind}{it['k']}\n{ind}(\n" + "".join(f"{ind}  {{\n" + render(rng, d, level + 1) + f"\n{ind}  }}\n" for d in it["ds"]) + f"{ind});\n")
        elif it["i"] == "lineC":
            out.append(f"{ind}{it['text']}\n")
        elif it["i"] == "blockC":
            out.append(f"{ind}{it['text']}" + rng.choice(["\n", " ", "\n\n"]))
        elif it["i"] == "incl":
            if out and not out[-1].endswith("\n"):
                out.append("\n")
            out.append(f"{rng.choice(['', ' ', '  '])}#include {it['q']}{it['name']}{it['q']}" + rng.choice(["\n", "  \n"]))
    return "".join(out)


def expected_comments(items, path=()):
    """per dict level: ordered, de-duplicated line comment texts and block comment texts"""
    out = {}
    lc, bc = [], []
    for it in items:
        if it["i"] == "lineC" and it["text"] not in lc:
            lc.append(it["text"])
        elif it["i"] == "blockC" and it["text"] not in bc:
            bc.append(it["text"])
        elif it["i"] == "sub":
            out.update(expected_comments(it["items"], path + (it["k"],)))
        elif it["i"] == "lstd":
            for i, d in enumerate(it["ds"]):
                out.update(expected_comments(d, path + (it["k"], i)))
    out[path] = (lc, bc)
    return out


def observed_comments(sd, d=None, path=()):
    d = sd if d is None else d
    out = {}
    lc, bc = [], []
    for k, v in d.items():
        if isinstance(k, str) and re.fullmatch(r"LINECOMMENT\d{6}", k):
            lc.append(sd.line_comments.get(int(k[-6:])))
        elif isinstance(k, str) and re.fullmatch(r"BLOCKCOMMENT\d{6}", k):
            bc.append(sd.block_comments.get(int(k[-6:])))
        elif isinstance(v, dict):
            out.update(observed_comments(sd, v, path + (k,)))
        elif isinstance(v, list):
            for i, x in enumerate(v):
                if isinstance(x, dict):
                    out.update(observed_comments(sd, x, path + (k, i)))
    out[path] = (lc, bc)
    return out


def first_block_nested(items) -> bool:
    """known-finding class D28: the first block comment of the source is not at top level"""
    def first(items, depth):
        for it in items:
            if it["i"] == "blockC":
                return depth
            if it["i"] == "sub":
                r = first(it["items"], depth + 1)
                if r is not None:
                    return r
        return None
    r = first(items, 0)
    return r is not None and r > 0


def sd_of(s):
    return c01.sd_json(s)


def process(ctx: Ctx, cases: list[dict]) -> None:
    from dictIO import DictReader, NativeFormatter
    reqs = []
    for c in cases:
        reqs.append({"op": "parse_native", "text": c["text"], "start": -1, "dir": "/DIR"})
        reqs.append({"op": "parse_native", "text": c["text"], "start": -1, "dir": "/DIR", "comments": False})
    replies = None if ctx.oracle_only else ctx.driver(reqs)
    fmt_reqs, fmt_idx = [], []
    for ci, c in enumerate(cases):
        items = c["items"]
        text = c["text"]
        ctx.case({"text": text}, c.get("nontrivial", True), tuple(sorted({it["i"] for it in items})))
        try:
            with impl.scratch() as td:
                for inc in c.get("files", []):
                    p = td / inc
                    p.parent.mkdir(parents=True, exist_ok=True)
                    p.write_text("// comment inside the include\nzz_included 1; /* block inside the include */\nzz_sub { // nested include comment\n q 2; }\n")
                src = td / "src"
                # how the file is stored: LF, CRLF or a lone CR as line terminator (the file layer translates them)
                eol = c.get("eol", "\n")
                src.write_bytes(text.replace("\r\n", "\n").replace("\n", eol).encode("utf-8") if eol != "\n" else text.encode("utf-8"))
                reset_globals()
                sd_inc = DictReader.read(src)                     # includes merged (missing ones are skipped)
                out_inc = NativeFormatter().to_string(sd_inc)
                reset_globals()
                sd = DictReader.read(src, includes=False) if False else None
                reset_globals()
                from dictIO import NativeParser
                sd = NativeParser().parse_file(src)                # comments on, no include merging: tables as parsed
                out = NativeFormatter().to_string(sd)
                reset_globals()
                sd_off = DictReader.read(src, comments=False)
                out_off = NativeFormatter().to_string(sd_off)
                tdname = str(td)
        except Exception as e:  # noqa: BLE001
            ctx.violation("read -> write raises", c, repr(e), "text"); continue
        # --- oracle ---------------------------------------------------------------------------
        exp = expected_comments(items)
        obs = observed_comments(sd)
        for path, (lc, bc) in exp.items():
            olc, obc = obs.get(path, ([], []))
            olc = [t for i, t in enumerate(olc) if t not in olc[:i]]      # identical comments at one level may be kept once or each
            if olc != lc:
                ctx.violation("line comments of a level are not returned in source order with exact text", c, {"path": list(path), "got": olc}, lc); break
            if sorted(obc) != sorted(bc):
                ctx.violation("block comments of a level are not returned with exact text", c, {"path": list(path), "got": obc}, bc); break
        for it_path, (lc, bc) in exp.items():
            for t in lc + bc:
                tt = t.replace("\r\n", "\n").replace("\r", "\n")       # exact text (line endings are the file layer's business)
                if tt not in out:
                    ctx.violation("a comment of the source is missing from the written output (exact text)", c, out, t); break
        # per-level order and level of line comments in the output: re-read the output
        try:
            with impl.scratch() as td2:
                (td2 / "o").write_text(out)
                reset_globals()
                sd2 = NativeParser().parse_file(td2 / "o")
            obs2 = observed_comments(sd2)
            for path, (lc, bc) in exp.items():
                lc2 = []
                for t in lc:      # comments that differ only in trailing blanks are identical once written
                    t = t.rstrip() if t is not None else t
                    if t not in lc2:
                        lc2.append(t)
                got = obs2.get(path, ([], []))[0]
                got = [t for i, t in enumerate(got) if t not in got[:i]]
                if got != lc2 and [g for g in got if g in lc2] != lc2:
                    ctx.violation("line comments are not written at their level in their original order", c, {"path": list(path), "got": got, "out": out}, lc2); break
                norm = lambda t: "\n".join(l.rstrip() for l in t.replace("\r\n", "\n").replace("\r", "\n").split("\n"))
                gotb = [norm(t) for t in obs2.get(path, ([], []))[1] if t is not None]
                missing = [t for t in bc if norm(t) not in gotb and not any(norm(t) in g for g in gotb)]
                if missing:
                    ctx.violation("a block comment is not written at its original nesting level", c, {"path": list(path), "got": gotb, "out": out}, missing); break
        except Exception as e:  # noqa: BLE001
            ctx.violation("the written output cannot be read again", c, repr(e), out)
        # header
        top_bc = [it["text"] for it in items if it["i"] == "blockC"]
        default = NativeFormatter().make_default_block_comment()
        own = next((t for t in exp[()][1] if re.search(r"\s[Cc]\+{2}\s", t)), None) if (exp[()][1] and re.search(r"\s[Cc]\+{2}\s", exp[()][1][0])) else None
        if own is not None:
            rs = lambda t: "\n".join(l.rstrip() for l in t.replace("\r\n", "\n").replace("\r", "\n").split("\n"))
            if not rs(out).startswith(rs(own)) or (default.split("\n")[1] in out and default.split("\n")[1] not in own):
                ctx.violation("output does not begin with the source's own header (whole text, no default header in front of it)", c, out[:300], own)
        else:
            if not out.startswith(default.split("\n")[0]) or out.count(default.split("\n")[1]) != 1:
                ctx.violation("output does not begin with exactly one default header", c, out[:300], default)
        # includes
        for it in items:
            if it["i"] == "incl":
                found = False
                for line in out.splitlines():
                    m = re.match(r"^\s*#\s*include\s*(.*?)\s*$", line)
                    if m and spec.unquote(m.group(1)) == it["name"]:
                        found = True
                if not found:
                    ctx.violation("an #include directive is not written again naming the same file", c, out, it["name"])
        # comments off
        def has_comment_key(d):
            return any((isinstance(k, str) and "COMMENT" in k) or (isinstance(v, dict) and has_comment_key(v)) for k, v in d.items())
        if has_comment_key(sd_off):
            ctx.violation("comments=False returns a comment entry", c, enc(impl.plain(sd_off)), "no COMMENT key")
        if not same(spec.strip_placeholders(impl.plain(sd_off)), spec.strip_placeholders(impl.plain(sd_inc))):
            ctx.violation("non-comment data differs between comments on and off", c, enc(spec.strip_placeholders(impl.plain(sd_off))), enc(spec.strip_placeholders(impl.plain(sd_inc))))
        body_off = out_off[len(default):] if out_off.startswith(default) else out_off
        if "//" in re.sub(r"'[^']*'|\"[^\"]*\"", "", body_off) or "/*" in re.sub(r"'[^']*'|\"[^\"]*\"", "", body_off):
            ctx.violation("with comments disabled something other than the header comment is written", c, out_off, "header only")
        # --- correspondence -------------------------------------------------------------------
        if replies is not None:
            m_on = replies[2 * ci]
            if isinstance(m_on, dict) and "sd" in m_on:
                isd = c01.sd_json(sd)
                for e in isd["incl"]:
                    e[1][2] = ""          # pathlib's spelling of the joined path ('.' components dropped) is not modelled
                msd = canon_floats(m_on["sd"])
                for e in msd["incl"]:
                    e[1][2] = ""
                if msd != isd:
                    ctx.disagree("NativeParser.parse_file (tables)", {"text": text}, m_on["sd"], isd)
                else:
                    fmt_reqs.append({"op": "fmt_sd", "fl": "native", "sd": canon_floats(m_on["sd"])}); fmt_idx.append((ci, out))
            else:
                ctx.unsupported += 1
    if fmt_reqs and not ctx.oracle_only:
        for (ci, out), m in zip(fmt_idx, ctx.driver(fmt_reqs)):
            if isinstance(m, dict):
                ctx.unsupported += 1
            elif m != out:
                ctx.disagree("NativeFormatter.to_string(read(src)) bytes", {"text": cases[ci]["text"]}, m, out)


def mk_case(rng, items):
    text = render(rng, items)
    files = [it["name"] for it in items if it["i"] == "incl" and it["name"] not in ("missing", "../up") and "\\" not in it["name"]]
    nontrivial = any(it["i"] == "sub" for it in items) or any(it["i"] in ("lineC", "blockC") and re.search(r"[\\$'\"{};]", it["text"]) for it in items)
    eol = rng.choice(["\n", "\n", "\n", "\r\n", "\r"])
    if eol != "\n" and any(it["i"] in ("lineC", "blockC") and ("\n" in it["text"] or "\r" in it["text"]) for it in items):
        eol = "\n"          # multi-line block comments keep their own line breaks: only LF files for those
    return {"kind": "src", "text": text, "items": items, "files": files, "nontrivial": nontrivial, "eol": eol}


def run(ctx: Ctx) -> None:
    rng = ctx.rng
    cases = []
    for e in getattr(ctx, "fixed_witnesses", []):
        cases.append(e["witness"]); ctx.corpus_cases += 1
    for t in ["// back\\slash", "// a \\1 b", "// \\g<0>"]:
        items = [{"i": "lineC", "text": t}, {"i": "kv", "k": "a", "v": {"t": "bare", "w": "1"}}]
        cases.append(mk_case(rng, items)); ctx.corpus_cases += 1
    items = [{"i": "blockC", "text": "/* c */"}, {"i": "kv", "k": "a", "v": {"t": "bare", "w": "1"}},
             {"i": "sub", "k": "s", "items": [{"i": "blockC", "text": "/* d */"}, {"i": "kv", "k": "b", "v": {"t": "bare", "w": "2"}}]}]
    cases.append(mk_case(rng, items)); ctx.corpus_cases += 1
    # the source's own header in several shapes: the C++ marker on the first line, on a later line, in lower case, a header
    # without the marker (then the default header is written in front)
    for hdr in ("/*---------------------------------*- C++ -*----------------------------------*\\\nfiletype dictionary; version 7;\n\\*---*/",
                "/*\n *  -*- C++ -*-\n *  project header\n */", "/*\n  my own header\n  (c++ syntax)\n*/", "/* plain first comment */"):
        items = [{"i": "blockC", "text": hdr}, {"i": "kv", "k": "a", "v": {"t": "bare", "w": "1"}},
                 {"i": "sub", "k": "s", "items": [{"i": "lineC", "text": "// in s"}, {"i": "kv", "k": "b", "v": {"t": "bare", "w": "2"}}]}]
        cases.append(mk_case(rng, items)); ctx.corpus_cases += 1
    for _ in range(ctx.n(500, 12000)):
        for _try in range(50):
            items = gen_items(rng, rng.choice([0, 1, 2, 3]), lstd=True)
            # inputs of the known-finding classes D28 / D32 stay out of the compared stream (a few pass, to confirm the class)
            if not (first_block_nested(items) or _d32({"input": {"items": items}}) or trailing_ws_comment(items)) or rng.random() < 0.03:
                break
        cases.append(mk_case(rng, items))
    process(ctx, cases)


def replay(ctx: Ctx, case: dict) -> None:
    process(ctx, [case])


def _d28(v: dict) -> bool:
    return first_block_nested(v["input"].get("items", []))


def _w28() -> bool:
    from dictIO import NativeFormatter, NativeParser, SDict
    reset_globals()
    s = NativeParser().parse_string("a 1;\ns\n{\n/* c */\nb 2;\n}\n", SDict())
    out = NativeFormatter().to_string(s)
    return not out.startswith("/*---")


def _block_texts_by_level(items, path=(), out=None):
    out = {} if out is None else out
    for it in items:
        if it["i"] == "blockC":
            out.setdefault(it["text"], set()).add(path)
        elif it["i"] == "sub":
            _block_texts_by_level(it["items"], path + (it["k"],), out)
    return out


def _d32(v: dict) -> bool:
    """identical block comment text at two different nesting levels"""
    return any(len(levels) > 1 for levels in _block_texts_by_level(v["input"].get("items", [])).values())


def _w32() -> bool:
    from dictIO import NativeFormatter, NativeParser, SDict
    reset_globals()
    s = NativeParser().parse_string("/* c */\na 1;\ns\n{\n/* c */\nb 2;\n}\n", SDict())
    return NativeFormatter().to_string(s).count("/* c */") == 1


def _d27(v: dict) -> bool:
    t = v["input"].get("text", "")
    return re.search(r"\*//", t) is not None or any(it["i"] == "blockC" and re.search(r"(?<!:)//", it["text"]) for it in _all_items(v["input"].get("items", [])))


def _all_items(items):
    for it in items:
        yield it
        if it["i"] == "sub":
            yield from _all_items(it["items"])


def _w27() -> bool:
    from dictIO import NativeFormatter, NativeParser, SDict
    reset_globals()
    s = NativeParser().parse_string("/* a */// b\nk 1;\n", SDict())
    return "/* a */" not in NativeFormatter().to_string(s)


def trailing_ws_comment(items) -> bool:
    """known-finding class D42: a comment one of whose lines ends in white space"""
    for it in items:
        if it["i"] in ("lineC", "blockC"):
            t = it["text"].replace("\r\n", "\n")
            if re.search(r"[ \t\r\x0b\x0c]+(\n|$)", t):
                return True
        elif it["i"] == "sub" and trailing_ws_comment(it["items"]):
            return True
        elif it["i"] == "lstd" and any(trailing_ws_comment(d) for d in it["ds"]):
            return True
    return False


def _d42(v: dict) -> bool:
    return trailing_ws_comment(v["input"].get("items", []))


def _w42() -> bool:
    from dictIO import NativeFormatter, NativeParser, SDict
    reset_globals()
    s = NativeParser().parse_string("a 1; // note  \nb 2;\n", SDict())
    return "// note  " in s.line_comments.values() and "// note  " not in NativeFormatter().to_string(s)


KNOWN_CLASSES = {"first_block_comment_nested": _d28, "same_block_comment_two_levels": _d32, "adjacent_comments": _d27,
                 "comment_with_trailing_white_space": _d42}
WITNESSES = {"D28": _w28, "D32": _w32, "D27": _w27, "D42": _w42}
