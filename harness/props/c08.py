"""C08 -- results do not depend on working directory, path spelling or earlier operations."""
from __future__ import annotations

import copy
import itertools
import os
import re
from pathlib import Path

import impl
import spec
from common import Ctx, canon_floats, dec, enc, same, reset_globals
from props import c01

ID = "C08"
RULE = ("pool of files (comments, includes, expressions, JSON) in a directory tree; prefixes of operations (read with options / "
        "write a,w / parse / load / dump / reset / chdir; exhaustively up to length 2 quick, 3 thorough, randomly beyond) followed by "
        "a probe (read, read order=True, write, parse, dump+load) whose canonicalised data / written bytes are compared with the same "
        "probe on a fresh state; counter starts {-1, 0, 5, limit-9 .. limit}; every directory of the tree as cwd; relative vs "
        "absolute spelling; compared: model parseNative from different counter starts (canonical forms equal to each other and to the "
        "implementation's); non-trivial = prefix that draws placeholder ids or changes cwd")
ASSUMPTIONS = ["'fresh state' = BorgCounter reset to -1 in the same interpreter (the include registry is local since fix D14)"]

LIMIT = 999999
FILES = {
    "a.dict": "/* hdr C++ x */\n// c1\n#include 'sub/inc'\nk 1; // tail\ns 'x y';\nn { // nested\n p 2; /* blk */ q \"$k + 1\"; }\nr $fromInc;\nl ( 1 'two words' 3 );\n",
    "sub/inc": "// inc comment\nfromInc 7;\ns2 'from include';\n",
    "b.dict": "// only one\nz 26;\ny 'why not';\n",
    "c.json": '{"j": 1, "t": "text", "#include": "b.dict"}',
    # two includes on one level that define the same key (first wins), a reference that depends on which one won
    "m.dict": "// two includes\n#include 'inc1'\nown 1; // c\n#include 'inc2'\nres \"$shared + 1\";\n",
    "inc1": "shared 10;\nonly1 'one';\n",
    "inc2": "// second\nshared 20;\nonly2 'two';\n",
    # the same comment text and the same include twice on one level (the reader keeps each once)
    "dup.dict": "// ----\na 1;\n// ----\nb 2;\nn { // ----\n x 1; // ----\n }\n",
    "dup2.dict": "#include 'inc1'\nc 3;\n#include 'inc1'\n",
    # an include that climbs out of its folder: resolved against the real parent, also when the file is named through a link
    "case/up.dict": "#include '../b.dict'\n#include '../sub/inc'\nu \"$z + 1\";\n",
    "model.xml": "<model><item id='1'>a</item><item>b</item><sub><x>1</x><x>2</x></sub></model>",
    # an expression that binds a name (walrus) and another file whose expression mentions that bare name
    "walrus.dict": "a 4;\nb \"(n := $a + 1) * n\";\n",
    "usesn.dict": "x 3;\ny \"$x * n\";\nz \"$x + _ + a\";\n",
    # a document that binds the prefix the writer uses by default (xs) to another URI
    "schema.xml": "<xs:schema xmlns:xs='http://www.w3.org/2001/XMLSchema'><xs:element name='e'>t</xs:element><xs:note>n</xs:note></xs:schema>",
}


def build(td: Path):
    for nm, t in FILES.items():
        p = td / "proj" / nm
        p.parent.mkdir(parents=True, exist_ok=True)
        p.write_text(t)
    (td / "proj" / "out").mkdir()
    (td / "elsewhere").mkdir()
    (td / "elsewhere" / "deep").mkdir()
    os.symlink(td / "proj" / "case", td / "elsewhere" / "deep" / "linkcase", target_is_directory=True)   # physical parent differs from lexical parent


def canon_sd(sd) -> dict:
    """placeholder-id independent form: ids replaced by rank of first appearance (per kind), with the texts they stand for"""
    ranks: dict = {}

    def ph(s: str):
        def rep(m):
            key = (m.group(1), m.group(2))
            if key not in ranks:
                ranks[key] = len([k for k in ranks if k[0] == m.group(1)])
            kind, num = key
            table = {"LINECOMMENT": sd.line_comments, "BLOCKCOMMENT": sd.block_comments, "INCLUDE": sd.includes}.get(kind, {})
            e = table.get(int(num))
            text = e[1] if isinstance(e, tuple) else e
            return f"<{kind}#{ranks[key]}:{text}>"
        return re.sub(r"(LINECOMMENT|BLOCKCOMMENT|INCLUDE|EXPRESSION|STRINGLITERAL)(\d{6})", rep, s)

    def node(k: str):
        # XML element keys carry a running node number drawn from the same counter (`000012_tag`): canonical by rank, too
        m = re.match(r"(\d{6})_(.*)", k, flags=re.S)
        if not m:
            return ph(k)
        key = ("NODE", m.group(1))
        if key not in ranks:
            ranks[key] = len([x for x in ranks if x[0] == "NODE"])
        return f"<NODE#{ranks[key]}>_{m.group(2)}"

    def walk(v):
        if isinstance(v, dict):
            return [[node(k) if isinstance(k, str) else k, walk(x)] for k, x in v.items()]
        if isinstance(v, list):
            return [walk(x) for x in v]
        if isinstance(v, str):
            return ph(v)
        return enc(v)
    return {"data": walk(impl.plain(dict(sd)))}


def do_op(td: Path, op: tuple, probe: bool = False):
    """perform one operation; returns an observation for probes"""
    from dictIO import DictParser, DictReader, DictWriter, SDict
    kind = op[0]
    proj = td / "proj"

    def path(spec_):
        name, spelling = spec_
        p = proj / name
        if name.startswith("@link/"):
            p = td / "elsewhere" / "deep" / "linkcase" / name[6:]
        if spelling == "rel":
            return Path(os.path.relpath(p, os.getcwd()))
        return p
    if kind == "read":
        sd = DictReader.read(path(op[1]), **op[2])
        return canon_sd(sd) if probe else None
    if kind == "write":
        target = proj / "out" / op[1]
        DictWriter.write(copy.deepcopy(op[3]), target if op[4] == "abs" else Path(os.path.relpath(target, os.getcwd())), mode=op[2])
        return target.read_bytes().decode() if probe else None
    if kind == "parse":
        DictParser.parse(path(op[1]), **op[2])
        out = sorted(p for p in (proj / Path(op[1][0]).parent).glob("parsed." + Path(op[1][0]).stem + "*"))
        return {p.name: p.read_text() for p in out} if probe else None
    if kind == "load":
        s = SDict().load(path(op[1]))
        return canon_sd(s) if probe else None
    if kind == "dump":
        s = SDict(copy.deepcopy(op[2]))
        target = proj / "out" / op[1]
        s.dump(target)
        return target.read_text() if probe else None
    if kind == "reset":
        SDict().reset()
        return None
    if kind == "chdir":
        os.chdir(td / op[1])
        return None
    if kind == "touch":
        # the files' time stamps are not part of their contents: move them (far past, future, all different)
        for i, nm in enumerate(sorted(FILES)):
            t = {"past": 86400 + i, "future": 4102444800 + i, "same": 1700000000}[op[1]]
            os.utime(proj / nm, (t, t))
        return None
    raise ValueError(kind)


D1 = {"k": "a b", "n": {"p": [1, 2, "x y"], "q": None}, "z": 1.5}
# dicts that carry per-document XML options (documented keys of `_xmlOpts`): the options of one document must not reach the next
DX1 = {"_xmlOpts": {"_removeNodeNumbering": False, "_rootTag": "first"}, "a": 1, "b": {"c": "x"}}
DX2 = {"_xmlOpts": {"_nameSpaces": {"p": "urn:one"}, "_rootTag": "second", "_rootAttributes": {"v": "1"}}, "a": 1}
# the writer's default namespace URI bound to another prefix, and its default prefix bound to another URI
DX3 = {"_xmlOpts": {"_nameSpaces": {"q": "https://www.w3.org/2009/XMLSchema/XMLSchema.xsd"}, "_rootTag": "third"}, "a": 1}
DX4 = {"_xmlOpts": {"_nameSpaces": {"xs": "urn:other"}, "_rootTag": "fourth"}, "a": {"b": 2}}
PREFIX_OPS = [("read", ("a.dict", "abs"), {}), ("read", ("a.dict", "rel"), {"order": True}), ("read", ("b.dict", "abs"), {"comments": False}),
              ("read", ("c.json", "rel"), {}), ("write", "w1", "w", D1, "abs"), ("write", "w1", "a", {"extra": "it's"}, "rel"),
              ("parse", ("b.dict", "abs"), {}), ("load", ("a.dict", "abs")), ("dump", "d1", D1), ("reset",), ("chdir", "proj/sub"), ("chdir", "elsewhere"),
              ("touch", "past"), ("touch", "future"), ("touch", "same"),
              ("write", "x1.xml", "w", DX1, "abs"), ("write", "x2.xml", "w", DX2, "rel"), ("read", ("model.xml", "abs"), {}),
              ("read", ("walrus.dict", "abs"), {}), ("load", ("walrus.dict", "rel")),
              ("write", "x3.xml", "w", DX3, "abs"), ("write", "x4.xml", "w", DX4, "abs"), ("parse", ("schema.xml", "abs"), {"output": "xml"})]
PROBES = [("read", ("a.dict", "abs"), {}), ("read", ("a.dict", "rel"), {"comments": False}), ("read", ("a.dict", "abs"), {"order": True}),
          ("read", ("c.json", "abs"), {}), ("write", "probe", "w", D1, "rel"), ("parse", ("a.dict", "rel"), {}), ("parse", ("a.dict", "abs"), {"order": True, "output": "json"}),
          ("load", ("a.dict", "rel")), ("dump", "pd", D1),
          ("read", ("m.dict", "abs"), {}), ("read", ("m.dict", "rel"), {"comments": False}), ("parse", ("m.dict", "abs"), {}),
          ("write", "probe.xml", "w", {"000001_a": 1, "000002_a": {"000003_b": "x y"}, "c": [1, 2]}, "rel"),
          ("parse", ("model.xml", "abs"), {"output": "xml"}), ("read", ("model.xml", "rel"), {}), ("parse", ("dup2.dict", "abs"), {"output": "xml", "comments": False}),
          ("parse", ("schema.xml", "rel"), {"output": "xml"}), ("read", ("usesn.dict", "abs"), {}), ("read", ("usesn.dict", "rel"), {"order": True}),
          ("read", ("case/up.dict", "abs"), {}), ("read", ("case/up.dict", "rel"), {}),
          ("read", ("dup.dict", "abs"), {}), ("parse", ("dup.dict", "rel"), {}), ("read", ("dup2.dict", "abs"), {}), ("load", ("dup.dict", "abs"))]


def run_history(start: int, cwd: str, prefix: list, probe: tuple):
    old = os.getcwd()
    with impl.scratch() as td:
        build(td)
        try:
            os.chdir(td / cwd)
            reset_globals(start)
            for op in prefix:
                do_op(td, op)
            return do_op(td, probe, probe=True)
        finally:
            os.chdir(old)


def straddles_wrap(start: int, prefix: list, probe: tuple) -> bool:
    """known-finding class D18: order=True while the ids drawn may cross the counter's wrap-around"""
    uses_order = (len(probe) > 2 and isinstance(probe[2], dict) and probe[2].get("order")) or probe[0] == "parse" and probe[2].get("order")
    return bool(uses_order) and start >= LIMIT - 200


def process(ctx: Ctx, cases: list[dict]) -> None:
    base_cache: dict = {}
    for c in cases:
        if c["kind"] == "hist":
            prefix = [PREFIX_OPS[i] for i in c["prefix"]]
            probe = PROBES[c["probe"]]
            nontrivial = bool(prefix) or c["start"] != -1 or c["cwd"] != "proj"
            ctx.case(c, nontrivial, (probe[0],) + tuple(sorted({PREFIX_OPS[i][0] for i in c["prefix"]})))
            key = c["probe"]
            if key not in base_cache:
                try:
                    base_cache[key] = run_history(-1, "proj", [], probe)
                except Exception as e:  # noqa: BLE001
                    # the probe on a fresh counter in the project folder fails: only what this PROCESS did before can be the reason
                    ctx.violation("operation raises on a fresh state after earlier operations of the same process", c, repr(e), "a result", replay=c)
                    continue
            try:
                got = run_history(c["start"], c["cwd"], prefix, probe)
            except Exception as e:  # noqa: BLE001
                ctx.violation("operation raises after a history that should not matter", c, repr(e), "same result as on a fresh state"); continue
            if got != base_cache[key]:
                ctx.violation("result depends on earlier operations / counter value / working directory / path spelling", c, got, base_cache[key],
                              replay=c)
        elif c["kind"] == "alias":
            ctx.case(c, True, ("alias",))
            try:
                ra = run_history(-1, c["cwd"], [], ("read", tuple(c["a"]), {}))
                rb = run_history(-1, c["cwd"], [], ("read", tuple(c["b"]), {}))
            except Exception as e:  # noqa: BLE001
                ctx.violation("reading a file named through a symbolic link to its folder raises", c, repr(e), "same data as by its physical path"); continue
            if ra != rb:
                ctx.violation("a file named through a symbolic link to its folder reads differently from the same file named by its physical path", c, rb, ra)
        elif c["kind"] == "readopts":
            # every combination of the read options, from several counter values: model readFile vs DictReader.read
            ctx.case(c, True, ("readopts",))
            if ctx.oracle_only:
                continue
            import json as _json
            from dictIO import DictReader
            fs = []
            for nm, text in FILES.items():
                comps = ["R", "proj"] + nm.split("/")
                fs.append([comps, {"json": c01.enc_entries(_json.loads(text))} if nm.endswith(".json") else {"native": text}])
            o = c["opts"]
            req = {"op": "read", "fs": fs, "path": ["R", "proj"] + c["file"].split("/"), "start": c["start"], "includes": o["includes"],
                   "order": o["order"], "comments": o["comments"]}
            if o["scope"]:
                req["scope"] = [{"s": k} for k in o["scope"]]
            m = ctx.driver([req])[0]
            try:
                with impl.scratch() as td:
                    build(td)
                    reset_globals(c["start"])
                    kw = dict(includes=o["includes"], order=o["order"], comments=o["comments"])
                    if o["scope"]:
                        kw["scope"] = list(o["scope"])
                    try:
                        sd = DictReader.read(td / "proj" / c["file"], **kw)
                        ij = _json.loads(_json.dumps(c01.sd_json(sd)).replace(str(td), "/R"))
                    except SystemExit:
                        ij = "exit1"
            except Exception as e:  # noqa: BLE001
                ctx.violation("DictReader.read raises for an option combination", c, repr(e), "result"); continue
            if isinstance(m, dict) and "sd" in m:
                if canon_floats(m["sd"]) != ij:
                    ctx.disagree("DictReader.read (option matrix)", c, canon_floats(m["sd"]), ij)
            elif m == "exit1" or ij == "exit1":
                if m != ij:
                    ctx.disagree("DictReader.read (option matrix): scope missing", c, m, ij)
            else:
                ctx.unsupported += 1
        elif c["kind"] == "model":
            # model: canonical parse result is the same from every counter start, and equals the implementation's
            ctx.case(c, True, ("model",))
            if ctx.oracle_only:
                continue
            from dictIO import NativeParser, SDict
            outs = []
            for st in c["starts"]:
                m = ctx.driver([{"op": "parse_native", "text": c["text"], "start": st, "dir": "/D"}])[0]
                reset_globals(st)
                isd = NativeParser().parse_string(c["text"], SDict())
                if not (isinstance(m, dict) and "sd" in m):
                    ctx.unsupported += 1
                    continue
                msd = canon_floats(m["sd"])
                ij = c01.sd_json(isd)
                for e in ij["incl"]:
                    e[1][2] = ""
                for e in msd["incl"]:
                    e[1][2] = ""
                if msd != ij:
                    ctx.disagree(f"parse_string from counter start {st}", c, msd, ij)
                outs.append(canon_sd(isd))
            if any(o != outs[0] for o in outs[1:]):
                ctx.violation("canonical parse result depends on the counter's starting value", c, outs, outs[0])


def run(ctx: Ctx) -> None:
    rng = ctx.rng
    cases = []
    for e in getattr(ctx, "fixed_witnesses", []):
        if isinstance(e.get("witness"), dict) and e["witness"].get("kind") == "api":
            from props import api as _api          # a history of API calls kept from a seeded change
            _api.process(ctx, [e["witness"]], oracles=False); ctx.corpus_cases += 1
            continue
        cases.append(e["witness"]); ctx.corpus_cases += 1
    starts = [-1, 0, 5, LIMIT - 9, LIMIT - 5, LIMIT - 2, LIMIT - 1, LIMIT]
    cwds = ["proj", "proj/sub", "elsewhere", "."]
    L = 1 if ctx.tier == "quick" else 2
    if ctx.scale == 1.0:
        for n in range(L + 1):
            for prefix in itertools.product(range(len(PREFIX_OPS)), repeat=n):
                for pi in range(len(PROBES)):
                    cases.append({"kind": "hist", "prefix": list(prefix), "probe": pi, "start": -1, "cwd": "proj"})
        ctx.exhaustive.append(f"all operation prefixes of length <= {L} over {len(PREFIX_OPS)} operations x {len(PROBES)} probes")
        for st, cwd, pi in itertools.product(starts, cwds, range(len(PROBES))):
            cases.append({"kind": "hist", "prefix": [], "probe": pi, "start": st, "cwd": cwd})
        ctx.exhaustive.append("8 counter starts (incl. limit-9..limit) x 4 working directories x all probes")
        # the wrap-around at every position inside one operation: all starts limit-30 .. limit
        for st, pi in itertools.product(range(LIMIT - 30, LIMIT + 1), range(len(PROBES))):
            if st not in starts:
                cases.append({"kind": "hist", "prefix": [], "probe": pi, "start": st, "cwd": "proj"})
        ctx.exhaustive.append("every counter start in limit-30 .. limit x all probes (the wrap-around falls on every id drawn by a probe)")
    for _ in range(ctx.n(150, 3000)):
        n = rng.randint(2, 6)
        cases.append({"kind": "hist", "prefix": [rng.randrange(len(PREFIX_OPS)) for _ in range(n)], "probe": rng.randrange(len(PROBES)),
                      "start": rng.choice(starts + [rng.randint(0, LIMIT)]), "cwd": rng.choice(cwds)})
    for file in ("a.dict", "m.dict", "c.json"):
        for inc, order, comments, scope in itertools.product([True, False], [False, True], [True, False], [None, ["n"], ["nope"]]):
            for st in rng.sample([-1, 0, 41, LIMIT - 3, LIMIT - 1, LIMIT], 2 if ctx.tier == "quick" else 6):
                cases.append({"kind": "readopts", "file": file, "start": st, "opts": {"includes": inc, "order": order, "comments": comments, "scope": scope}})
    # the same file named through a symbolic link to its folder reads like the file named by its physical path
    for cwd, sp in itertools.product(cwds + ["elsewhere/deep"], ["abs", "rel"]):
        cases.append({"kind": "alias", "cwd": cwd, "a": ["case/up.dict", sp], "b": ["@link/up.dict", sp]})
    for text in (FILES["a.dict"], FILES["b.dict"], "a 'x'; b 'y'; // c\n/* d */ e \"$a\";\n"):
        cases.append({"kind": "model", "text": text, "starts": [-1, 0, 41, LIMIT - 3, LIMIT - 1, LIMIT]})
    process(ctx, cases)
    # histories of API calls against the world model (Model/Api.lean; Props/C08api.lean is about that state machine):
    # values returned, the counter (with starts at the wrap-around) and the whole file system after the history
    from props import api
    api.run(ctx, 100, 2500)


def replay(ctx: Ctx, case: dict) -> None:
    if case.get("kind") == "api":
        from props import api
        api.process(ctx, [case]); return
    process(ctx, [case])


def _d18(v: dict) -> bool:
    c = v["input"]
    if c.get("kind") != "hist":
        return False
    return straddles_wrap(c["start"], [PREFIX_OPS[i] for i in c["prefix"]], PROBES[c["probe"]])


def _w18() -> bool:
    a = run_history(LIMIT - 2, "proj", [], PROBES[2])
    b = run_history(-1, "proj", [], PROBES[2])
    return a != b


def _d35(v: dict) -> bool:
    """JSON output of a dict that carries comment / include placeholders: their counter-dependent ids are written"""
    c = v["input"]
    return c.get("kind") == "hist" and PROBES[c["probe"]][0] == "parse" and PROBES[c["probe"]][2].get("output") == "json"


def _w35() -> bool:
    a = run_history(5, "proj", [], PROBES[6])
    b = run_history(-1, "proj", [], PROBES[6])
    return a != b


def _d53(v: dict) -> bool:
    """an SDict obtained before a reset of the counter is written (appended) onto a commented file after it"""
    return False          # no generated history writes an SDict returned by an earlier read; the witness is replayed on every run


def _w53() -> bool:
    from dictIO import DictReader, DictWriter, SDict
    from dictIO.utils.counter import BorgCounter

    def run(reset):
        with impl.scratch() as td:
            (td / "A").write_text("// comment of A\na 1;\n")
            (td / "T").write_text("// comment of T\nt 2;\n")
            BorgCounter.reset()
            d = DictReader.read(td / "A")
            if reset:
                SDict().reset()
            DictWriter.write(d, td / "T", mode="a")
            return (td / "T").read_text()
    return run(False) != run(True)


KNOWN_CLASSES = {"sdict_from_before_a_reset": _d53, "order_across_counter_wrap": _d18, "json_output_with_placeholders": _d35}
WITNESSES = {"D53": _w53, "D18": _w18, "D35": _w35}
