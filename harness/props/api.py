"""Histories of API calls: the implementation against the world model of lean/DictIO/Model/Api.lean.

One case = a pool of native dict files (comments, one level or chains of #include, references and integer expressions),
a starting value of the placeholder counter, and a history of read / load / reset / write / dump / parse calls with random
options.  The implementation runs the history in one process without any reset in between; the model runs the same history
through the driver op `api_run`.  Compared: what every call returned (data with all side tables, placeholder ids included),
the final value of the counter, and the complete file system at the end, byte for byte.
Used by C13 (state of the file system), C08 (histories) and C16 (write sequences with SDict sources)."""
from __future__ import annotations

import copy
import os
from pathlib import Path

import impl
from common import Ctx, canon_floats, dec, enc, enc_entries
from props import c01

WORDS = ["alpha", "beta", "gamma", "delta", "eps", "zeta", "eta", "theta"]
VALUES = ["1", "2", "42", "-7", "word", "other", "'two words'", "'a;b'", "true", "off", "NULL", "x1"]


def _entries(rng, depth, names, refs):
    """lines of `key value;` / `key { … }` / `key ( … );` with optional comments; returns list of text lines"""
    out = []
    ks = rng.sample(WORDS, rng.randint(1, 4))
    for k in ks:
        r = rng.random()
        if r < 0.12:
            out.append(f"// note on {k}" + rng.choice(["", " $x {", " ; )", " it's"]))
        if r < 0.55 or depth >= 2:
            if refs and rng.random() < 0.2:
                v = rng.choice([f"${rng.choice(refs)}", f"\"${rng.choice(refs)} + {rng.randint(1, 9)}\"", f"\"${rng.choice(refs)} * ${rng.choice(refs)}\""])
            else:
                v = rng.choice(VALUES)
            out.append(f"{k} {v};")
        elif r < 0.85:
            out.append(f"{k}")
            out.append("{")
            out.extend("    " + l for l in _entries(rng, depth + 1, names, refs))
            out.append("}")
        else:
            out.append(f"{k} ( {' '.join(rng.choice(['1', '2', 'w', '3']) for _ in range(rng.randint(0, 3)))} );")
    return out


def gen_pool(rng) -> dict:
    names = rng.sample(["case", "inc", "sub/base", "sub/deep/leaf", "other.foam", "b.cpp"], rng.randint(2, 4))
    pool = {}
    for i, n in enumerate(names):
        lines = []
        if rng.random() < 0.3:
            lines.append("/* header of " + n.replace("/", " ") + " */")
        others = [m for m in names if m != n]
        if others and rng.random() < 0.45:
            for m in rng.sample(others, rng.randint(1, min(2, len(others)))):
                rel = os.path.relpath("/R/" + m, os.path.dirname("/R/" + n))
                lines.append(rng.choice(["#include '{}'", "#include \"{}\"", "#include {}"]).format(rel))
        refs = []
        if rng.random() < 0.5:
            lines.append(f"v{i} {rng.randint(1, 9)};"); refs.append(f"v{i}")
            if rng.random() < 0.5:
                lines.append(f"w{i} {rng.randint(1, 9)};"); refs.append(f"w{i}")
        lines.extend(_entries(rng, 0, names, refs))
        pool[n] = "\n".join(lines) + rng.choice(["\n", "", "\n\n"])
    if rng.random() < 0.4:
        # a JSON source (never a target): string keys, typed leaves, a reference, an include of a native file; native files may include it
        import json as _json
        d = {"jv": rng.randint(1, 9), "jname": rng.choice(["text", "two words", "1", "true"]), "jsub": {"p": rng.randint(0, 5), "q": [1, "w"]}}
        if rng.random() < 0.5:
            d["jref"] = "$jv"
        if rng.random() < 0.5:
            d["jexpr"] = "$jv + 2"
        if rng.random() < 0.5:
            d = {"#include": rng.choice(names), **d}
        pool["data.json"] = _json.dumps(d, indent=rng.choice([None, 2]))
        if rng.random() < 0.5:
            n0 = rng.choice(names)
            rel = os.path.relpath("/R/data.json", os.path.dirname("/R/" + n0))
            pool[n0] = f"#include '{rel}'\n" + pool[n0]
    return pool


def gen_dict(rng, tag):
    d = {}
    for k in rng.sample(WORDS, rng.randint(1, 3)):
        d[k] = rng.choice([f"{tag}{k}", rng.randint(0, 99), f"{tag} x", True, None, "1", "it's", "a;b", ""])
    if rng.random() < 0.6:
        d[rng.choice(["nest", "alpha", "beta"])] = {kk: rng.choice([tag, rng.randint(0, 9), [1, tag]]) for kk in rng.sample(["p", "q", "r"], rng.randint(0, 3))}
    if rng.random() < 0.2:
        d["_private"] = {"_x": 1, "y": tag}
    return d


def gen_case(rng) -> dict:
    pool = gen_pool(rng)
    names = list(pool)
    targets = [n for n in names if not n.endswith(".json")] + ["out", "sub/new", "made/dir/o.foam", "parsed.case"]
    ops = []
    for i in range(rng.randint(2, 7)):
        r = rng.random()
        ro = {}
        if rng.random() < 0.3: ro["includes"] = False
        if rng.random() < 0.3: ro["order"] = True
        if rng.random() < 0.3: ro["comments"] = False
        if rng.random() < 0.15: ro["scope"] = [enc_key_py(k) for k in rng.choice([["alpha"], ["beta"], ["nest", "p"], ["nope"]])]
        if r < 0.3:
            ops.append({"k": "read", "p": rng.choice(targets + [n for n in names if n.endswith(".json")]), **ro})
        elif r < 0.38:
            ops.append({"k": "load", "p": rng.choice(targets)})
        elif r < 0.45:
            ops.append({"k": "reset"})
        elif r < 0.65:
            ops.append({"k": "write", "a": {"plain": enc_entries(gen_dict(rng, f"W{i}"))}, "t": rng.choice(targets),
                        "mode": rng.choice(["a", "a", "w", "x"]), "order": rng.random() < 0.3})
        elif r < 0.75:
            ops.append({"k": "dump", "sd": {"data": enc_entries(gen_dict(rng, f"D{i}"))}, "t": rng.choice(targets)})
        else:
            ops.append({"k": "parse", "p": rng.choice(names + ["nowhere"]), **ro, "mode": rng.choice(["w", "w", "a"]),
                        "output": rng.choice([None, None, "cpp", "foam"])})
    return {"kind": "api", "pool": pool, "start": rng.choice([-1, -1, 5, 999990, 999996, 999999]), "ops": ops}


def enc_key_py(k):
    return {"i": str(k)} if isinstance(k, int) else {"s": k}


def _comps(rel: str) -> list:
    return ["R"] + [c for c in rel.split("/") if c]


def _sd(s, root: str) -> dict:
    j = c01.sd_json(s)
    j["incl"] = [[i, [e[0], e[1], e[2].replace(root, "/R")]] for i, e in j["incl"]]
    return j


def _leaf_paths(v, pre=()):
    if isinstance(v, dict):
        for k, x in v.items():
            yield from _leaf_paths(x, pre + (k,))
    else:
        yield pre, v


def _sorted_everywhere(v) -> bool:
    if isinstance(v, dict):
        ks = list(v)
        return ks == sorted(ks, key=lambda k: (isinstance(k, str), k)) and all(_sorted_everywhere(x) for x in v.values())
    return True          # lists, and the dicts inside lists, keep their order


def _peek(path, **kw):
    """what a read of `path` returns now (placeholder entries dropped), without disturbing the history: the counter is put back"""
    import spec
    from dictIO import DictReader
    from dictIO.utils.counter import BorgCounter
    keep = BorgCounter.Borg["theCount"]
    try:
        return spec.strip_placeholders(impl.plain(DictReader.read(path, **kw)))
    except BaseException:  # noqa: BLE001
        return None
    finally:
        BorgCounter.Borg["theCount"] = keep


def run_impl(case: dict, fails: list | None = None):
    """the history on the real code, in a scratch directory; returns (outs, files, counter).
    `fails` collects what the direct oracles of C15 / C16 find: after a completed write with order=True every dict level of the
    target is sorted; an append keeps every leaf that was readable from the target before; any other write leaves exactly
    the new dict"""
    import spec
    from dictIO import DictParser, DictReader, DictWriter, SDict
    from dictIO.dict_writer import create_target_file_name
    from dictIO.utils.counter import BorgCounter
    outs = []
    with impl.scratch() as td:
        td = Path(os.path.realpath(td))
        root = str(td)
        for n, text in case["pool"].items():
            (td / n).parent.mkdir(parents=True, exist_ok=True)
            (td / n).write_text(text)
        BorgCounter.reset()
        BorgCounter.Borg["theCount"] = case["start"]
        for idx, op in enumerate(case["ops"]):
            kw = {k: op[k] for k in ("includes", "order", "comments") if k in op}
            tgt = before = None
            if fails is not None and op["k"] in ("write", "dump", "parse"):
                tgt = td / op["t"] if "t" in op else create_target_file_name(td / op["p"], prefix="parsed", scope=[int(k["i"]) if "i" in k else k["s"] for k in op.get("scope", [])] or None, output=op.get("output"))
                before = _peek(tgt) if tgt.exists() and tgt.suffix not in (".json", ".xml") else None
            n_before = len(outs)
            if "scope" in op:
                kw["scope"] = [int(k["i"]) if "i" in k else k["s"] for k in op["scope"]]
            try:
                if op["k"] == "read":
                    outs.append({"data": _sd(DictReader.read(td / op["p"], **kw), root)})
                elif op["k"] == "load":
                    outs.append({"data": _sd(SDict().load(td / op["p"]), root)})
                elif op["k"] == "reset":
                    BorgCounter.reset(); outs.append("done")
                elif op["k"] == "write":
                    DictWriter.write(dec({"d": op["a"]["plain"]}), td / op["t"], mode=op["mode"], order=op.get("order", False)); outs.append("done")
                elif op["k"] == "dump":
                    SDict(dec({"d": op["sd"]["data"]})).dump(td / op["t"]); outs.append("done")
                elif op["k"] == "parse":
                    r = DictParser.parse(td / op["p"], mode=op["mode"], output=op.get("output"), **kw)
                    outs.append({"data": _sd(r, root)})
                if tgt is not None and len(outs) > n_before and tgt.exists():
                    after = _peek(tgt)
                    mode = op.get("mode", "a")
                    ordered = op.get("order", False)
                    what = None
                    if after is None:
                        what = "the written file cannot be read back"
                    elif ordered and not _sorted_everywhere({k: v for k, v in (_peek(tgt, includes=False) or {}).items() if k != "FoamFile"}):
                        what = "written with order=True, but a dict level of the file is not sorted"
                    elif mode == "a" and before is not None:
                        # (modulo the documented element-type normalisation: a string leaf that came from an included JSON file
                        # and spells a number / boolean / none is written as that typed value)
                        lost = [list(pth) for pth, val in _leaf_paths(spec.norm({k: v for k, v in before.items() if k != "FoamFile"}))
                                if not any(pth == q and spec.unordered(val) == spec.unordered(w) for q, w in _leaf_paths(spec.norm(after)))]
                        if lost and not str(tgt).endswith(".foam"):
                            what = f"append lost or changed what was readable from the target before: {lost[:3]}"
                    if what:
                        fails.append((idx, what))
            except FileNotFoundError:
                outs.append("notFound")
            except SystemExit:
                outs.append("exit1"); break          # sys.exit(1) ends the process: the history ends here
            except RecursionError:
                outs.append({"perr": "tooDeep"})
            except Exception as e:  # noqa: BLE001
                outs.append("raises:" + type(e).__name__)
        files = {}
        for p in sorted(td.rglob("*")):
            if p.is_file():
                files[str(p.relative_to(td))] = p.read_text()
        return outs, files, BorgCounter.Borg["theCount"]


def request(case: dict, n: int | None = None) -> dict:
    ops = []
    for op in case["ops"][:n]:
        o = dict(op)
        for f in ("p", "t"):
            if f in o:
                o[f] = _comps(o[f])
        ops.append(o)
    import json as _json
    fs = [[_comps(n), ({"json": enc_entries(_json.loads(t))} if n.endswith(".json") else {"native": t})] for n, t in case["pool"].items()]
    return {"op": "api_run", "fs": fs, "start": case["start"], "ops": ops}


def process(ctx: Ctx, cases: list[dict], oracles: bool = False) -> None:
    impls = []
    for c in cases:
        kinds = tuple(sorted({"api:" + o["k"] for o in c["ops"]}))
        ctx.case(c, len(c["ops"]) > 1, kinds + (("api:wrap",) if c["start"] > 999900 else ()))
        fails = [] if oracles else None
        impls.append(run_impl(c, fails))
        for idx, what in fails or []:
            ctx.violation("api history: " + what, {**c, "ops": c["ops"][: idx + 1]}, what, "property holds after every call", replay={**c, "ops": c["ops"][: idx + 1]})
    if ctx.oracle_only:
        return
    replies = ctx.driver([request(c, len(i[0])) for c, i in zip(cases, impls)])
    for c, (outs, files, counter), m in zip(cases, impls, replies):
        if not (isinstance(m, dict) and "outs" in m):
            ctx.disagree("api_run: model reply", c, m, "a reply with outs / fs / counter"); continue
        m = canon_floats(m)
        gave_up = False
        for i, (mo, io) in enumerate(zip(m["outs"], outs)):
            if isinstance(mo, dict) and "perr" in mo and mo["perr"] != "tooDeep":
                gave_up = True; ctx.unsupported += 1; ctx.tag("api:model-gave-up"); break
            if isinstance(io, str) and io.startswith("raises:"):
                ctx.disagree(f"api history: call #{i} ({c['ops'][i]['k']}) raises in the implementation", {**c, "ops": c["ops"][: i + 1]}, mo, io)
                gave_up = True; break
            if mo != io:
                ctx.disagree(f"api history: value returned by call #{i} ({c['ops'][i]['k']})", {**c, "ops": c["ops"][: i + 1]}, mo, io)
                gave_up = True; break
        if gave_up:
            continue
        mfiles = {"/".join(e[0][1:]): (e[1].get("native") if "native" in e[1] else files.get("/".join(e[0][1:]))) for e in m["fs"]}
        if mfiles != files:
            diff = sorted(k for k in set(mfiles) | set(files) if mfiles.get(k) != files.get(k))
            ctx.disagree(f"api history: file system after the history differs at {diff[:3]}", c, {k: mfiles.get(k) for k in diff[:3]}, {k: files.get(k) for k in diff[:3]})
        elif m["counter"] != counter and outs[-1:] != ["exit1"]:
            ctx.disagree("api history: placeholder counter after the history", c, m["counter"], counter)
        else:
            ctx.tag("api:agreed-to-the-end")


def run(ctx: Ctx, quick: int = 150, thorough: int = 3000, oracles: bool = False) -> None:
    cases = [gen_case(ctx.rng) for _ in range(ctx.n(quick, thorough))]
    process(ctx, cases, oracles)
