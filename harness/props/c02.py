"""C02 -- the native reader is layout-tolerant and agrees with the documented grammar."""
from __future__ import annotations

import re

import gen
import impl
import spec
from common import Ctx, canon_floats, dec, enc, same, shrink, reset_globals
from props import c01

ID = "C02"
RULE = ("documents (key value; / key { } / key ( ); with typed scalars, nested lists/dicts, int and word keys) rendered by an "
        "independent grammar-based renderer with random layout per gap (none/blank/tab/LF/CRLF/mixed; delimiters glued or not), "
        "quote flavour per string (bare/single/double where admissible), spelling+case of bool/none words, line and block "
        "comments at statement boundaries; several renderings per document; compared: NativeParser.parse_string and "
        "DictReader.read vs the generating tree (denote) and vs the Lean model parseNative (data, tables, counter); "
        "non-trivial = document with nesting or a quoted string or a comment")
ASSUMPTIONS = ["comments only at statement boundaries; block-comment text free of `*/` and of `//` not after `:`; a blank between a "
               "block comment and a following `/` (known finding D27 otherwise)"]

GAPS = ["", " ", "  ", "\t", "\n", "\r\n", " \n  ", "\n\n", "    ", "\t \n"]
NEGAPS = [g for g in GAPS if g]


# ------------------------------------------------------------------------------------------------
# documents
# ------------------------------------------------------------------------------------------------
def gen_lit(rng):
    r = rng.random()
    if r < 0.25:
        return {"t": "bare", "w": gen.word(rng)}
    if r < 0.45:
        w = rng.choice(["1", "-3", "+7", "007", "1.5", "-.5", "5.", "1e3", "1E-3", "2.5e+10", "1.e-03", "0", "١٢", "12345678901234567890"])
        return {"t": "bare", "w": w}
    if r < 0.6:
        w = rng.choice(["true", "false", "on", "off", "none", "null"])
        return {"t": "bare", "w": "".join(c.upper() if rng.random() < 0.4 else c for c in w)}
    if r < 0.65:
        return {"t": "bare", "w": rng.choice(["-", "_", ".", "a[0]", "x=1", "#tag", "a.b.c", "%", "@home"])}
    for _ in range(20):
        s = gen.text(rng, rng.choice(["multi", "path", "delim", "nested1", "nested2", "backslash", "exotic", "numlike", "boolnone", "empty", "punct", "word", "padded", "linesep", "vocab"]))
        if c01.str_in_dom(s) and not (s and (s[0] in "'\"" and s[-1:] in "'\"" and len(s) == 1)):
            break
    else:
        s = "x y"
    qs = [q for q in "'\"" if q not in s]
    if not qs:
        s = s.replace('"', ""); qs = ['"']
    return {"t": "quoted", "q": rng.choice(qs), "body": s}


def gen_elem(rng, depth):
    r = rng.random()
    if depth <= 0 or r < 0.6:
        return {"e": "lit", "lit": gen_lit(rng)}
    if r < 0.8:
        return {"e": "list", "xs": [gen_elem(rng, depth - 1) for _ in range(rng.randint(0, 4))]}
    return {"e": "dict", "items": gen_items(rng, depth - 1, comments=False)}


def gen_comment(rng):
    if rng.random() < 0.5:
        t = rng.choice(["c", "a comment", "x; y", "{ brace", "say 'hi'", '"q"', "$var", "https://example.com/x", "k v;", "( 1 2 )", "é ж", "back\\slash", "\\1", "", " "])
        return {"i": "lineC", "text": "//" + t}
    t = rng.choice([" c ", "a; b", " { } ", "*", " 'q' ", ' "d" ', " $x ", "\n multi\n line \n", " see http://x.y ", "", " C++ ", "**",
                    " don't touch ", ' 5" pipe ', " it's ", " a 'b ", ' say "hi '])
    return {"i": "blockC", "text": "/*" + t + "*/"}


def gen_items(rng, depth, comments=True, n=None):
    items, used = [], set()
    for _ in range(rng.randint(0, 4) if n is None else n):
        if comments and rng.random() < 0.2:
            items.append(gen_comment(rng)); continue
        k = gen.key(rng, int_ratio=0.12)
        ks = str(k)
        typed = spec.classify(ks)
        if typed in used or isinstance(typed, (float, bool)) or typed is None:
            continue
        used.add(typed)
        r = rng.random()
        if depth <= 0 or r < 0.55:
            items.append({"i": "kv", "k": ks, "v": gen_lit(rng)})
        elif r < 0.8:
            items.append({"i": "sub", "k": ks, "items": gen_items(rng, depth - 1, comments)})
        else:
            items.append({"i": "lst", "k": ks, "xs": [gen_elem(rng, depth - 1) for _ in range(rng.randint(0, 5))]})
    if comments and rng.random() < 0.15:
        items.append(gen_comment(rng))
    return items


def den_lit(l):
    if l["t"] == "bare":
        return spec.classify(l["w"])
    v = spec.classify(l["body"])
    return l["body"] if isinstance(v, str) else v


def den_elem(e):
    if e["e"] == "lit":
        return den_lit(e["lit"])
    if e["e"] == "list":
        return [den_elem(x) for x in e["xs"]]
    return den_items(e["items"])


def den_items(items):
    d = {}
    for it in items:
        if it["i"] == "kv":
            d[spec.classify(it["k"])] = den_lit(it["v"])
        elif it["i"] == "sub":
            d[spec.classify(it["k"])] = den_items(it["items"])
        elif it["i"] == "lst":
            d[spec.classify(it["k"])] = [den_elem(x) for x in it["xs"]]
    return d


# ------------------------------------------------------------------------------------------------
# rendering: tokens with "word"/"delim"/"comment" kinds, then gaps
# ------------------------------------------------------------------------------------------------
def toks_lit(l):
    if l["t"] == "bare":
        return [("w", l["w"])]
    return [("w", l["q"] + l["body"] + l["q"])]


def toks_elem(e):
    if e["e"] == "lit":
        return toks_lit(e["lit"])
    if e["e"] == "list":
        return [("d", "(")] + [t for x in e["xs"] for t in toks_elem(x)] + [("d", ")")]
    return [("d", "{")] + toks_items(e["items"]) + [("d", "}")]


def toks_items(items):
    out = []
    for it in items:
        if it["i"] == "kv":
            out += [("w", it["k"])] + toks_lit(it["v"]) + [("d", ";")]
        elif it["i"] == "sub":
            out += [("w", it["k"]), ("d", "{")] + toks_items(it["items"]) + [("d", "}")]
        elif it["i"] == "lst":
            out += [("w", it["k"]), ("d", "(")] + [t for x in it["xs"] for t in toks_elem(x)] + [("d", ")"), ("d", ";")]
        elif it["i"] == "lineC":
            out.append(("lc", it["text"]))
        elif it["i"] == "blockC":
            out.append(("bc", it["text"]))
    return out


def render(rng, items) -> str:
    toks = toks_items(items)
    out = [rng.choice(GAPS)]
    prev = None
    for kind, t in toks:
        if prev is not None:
            pk, pt = prev
            need = (pk == "w" and kind == "w")
            # a word directly after a quoted string / before one still needs a blank unless a delimiter separates them
            if pk == "lc":
                g = rng.choice(["\n", "\r\n", "\n  ", "\n\n"])      # a line comment ends its line
            elif pk == "bc" and (kind in ("lc", "bc")):
                g = rng.choice(NEGAPS)                               # known finding D27 otherwise
            elif need:
                g = rng.choice(NEGAPS)
            else:
                g = rng.choice(GAPS)
            out.append(g)
        out.append(t)
        prev = (kind, t)
    if prev and prev[0] == "lc":
        out.append(rng.choice(["\n", "\r\n", ""]))
    else:
        out.append(rng.choice(GAPS))
    return "".join(out)


def _nontrivial(items) -> bool:
    return any(it["i"] in ("sub", "lst", "lineC", "blockC") or (it["i"] == "kv" and it["v"]["t"] == "quoted") for it in items)


_SHARED_PARSER = None


def process(ctx: Ctx, cases: list[dict]) -> None:
    from dictIO import DictReader, NativeParser, SDict
    reqs = [{"op": "parse_native", "text": c["text"], "start": -1} for c in cases]
    replies = [None] * len(cases) if ctx.oracle_only else ctx.driver(reqs)
    for c, m in zip(cases, replies):
        text = c["text"]
        exp = dec(c["den"])
        ctx.case({"text": text}, c.get("nontrivial", True), tuple(c.get("tags", ())))
        reset_globals()
        try:
            r = impl.plain(NativeParser().parse_string(text, SDict()))
        except Exception as e:  # noqa: BLE001
            ctx.violation("reader raises on well-formed text", c, repr(e), c["den"]); continue
        rs = spec.strip_placeholders(r)
        if not same(rs, exp):
            ctx.violation("reader result differs from the tree denoted by the documented grammar", c, enc(rs), c["den"])
        global _SHARED_PARSER
        if _SHARED_PARSER is None:
            _SHARED_PARSER = NativeParser()
        try:
            reset_globals()
            r2 = spec.strip_placeholders(impl.plain(_SHARED_PARSER.parse_string(text, SDict())))
            if c.get("file"):
                with impl.scratch() as td:
                    (td / "f").write_bytes(text.encode("utf-8"))
                    reset_globals()
                    r3 = spec.strip_placeholders(impl.plain(DictReader.read(td / "f", parser=_SHARED_PARSER)))
            else:
                r3 = r2
        except Exception as e:  # noqa: BLE001
            ctx.violation("a parser object that is used again raises on well-formed text", c, repr(e), c["den"]); continue
        if not same(r2, exp) or not same(r3, exp):
            ctx.violation("a parser object that was used for earlier texts returns something else than the denoted tree", c, enc(r2 if not same(r2, exp) else r3), c["den"])
        if c.get("file"):
            try:
                with impl.scratch() as td:
                    p = td / "f"
                    p.write_bytes(text.encode("utf-8"))
                    reset_globals()
                    rf = spec.strip_placeholders(impl.plain(DictReader.read(p)))
            except Exception as e:  # noqa: BLE001
                ctx.violation("DictReader.read raises on well-formed text", c, repr(e), c["den"]); continue
            if not same(rf, exp):
                ctx.violation("DictReader.read result differs from the tree denoted by the documented grammar", c, enc(rf), c["den"])
        if m is not None:
            ip = c01.impl_parse_text(text)
            if isinstance(m, dict) and m.get("perr") in ("unsupported", "malformed"):
                ctx.unsupported += 1
            elif canon_floats(m) != ip:
                ctx.disagree("NativeParser.parse_string", {"text": text}, m, ip)


def gen_deep(rng):
    """the depth boundary of the supported domain (nesting depth <= 9, i.e. key paths of up to 10 entries): a chain of nested
    dicts that ends in a quoted string, directly or as a list item, with a few siblings on the way"""
    quoted = {"t": "quoted", "q": rng.choice("'\""), "body": rng.choice(["deep word", "x y", "a;b", "w", "1", "true"])}
    if rng.random() < 0.5:
        n = rng.randint(6, 9)                      # n dicts + key: path of n + 1 <= 10
        items = [{"i": "kv", "k": "leaf", "v": quoted}]
    else:
        n = rng.randint(5, 8)                      # n dicts + key + index: path of n + 2 <= 10
        xs = [{"e": "lit", "lit": gen_lit(rng)} for _ in range(rng.randint(0, 2))] + [{"e": "lit", "lit": quoted}]
        items = [{"i": "lst", "k": "items", "xs": xs}]
    for lvl in range(n, 0, -1):
        sibs = gen_items(rng, 0, comments=False, n=rng.randint(0, 2))
        sibs = [x for x in sibs if x.get("k") not in (f"level{lvl}", "leaf", "items")]
        items = sibs[:1] + [{"i": "sub", "k": f"level{lvl}", "items": items}] + sibs[1:]
    return items


def mk_case(rng, items, file=False):
    text = render(rng, items)
    return {"kind": "render", "text": text, "den": enc(den_items(items)), "file": file, "nontrivial": _nontrivial(items),
            "tags": sorted({it["i"] for it in items})}


def _file_safe(text: str) -> bool:
    # through a file, universal newlines turn a lone CR / CRLF inside *quoted strings* into LF; strings are single-line anyway
    return True


def run(ctx: Ctx) -> None:
    rng = ctx.rng
    cases = []
    for e in getattr(ctx, "fixed_witnesses", []):
        cases.append(e["witness"]); ctx.corpus_cases += 1
    corpus = [("s 'http://x.y'; // c\nb 1;\n", {"s": "http://x.y", "b": 1}), ("/*c*/a 1;", {"a": 1}), ("a 1;b 2;", {"a": 1, "b": 2}),
              ("a\t1\r\n;\r\nl(1 2(3)){\n}", None), ("sub{x 1;y{z (a b);}}", {"sub": {"x": 1, "y": {"z": ["a", "b"]}}}),
              ("l ( );e { }", {"l": [], "e": {}}), ("k \"it's\"; j 'say \"x\"';", {"k": "it's", "j": 'say "x"'}),
              ("a TRUE; b Off; c NULL; d None;", {"a": True, "b": False, "c": None, "d": None})]
    for text, den in corpus:
        if den is not None:
            cases.append({"kind": "render", "text": text, "den": enc(den), "file": True}); ctx.corpus_cases += 1
    ndocs = ctx.n(220, 5000)
    for _ in range(ndocs):
        items = gen_items(rng, rng.choice([0, 1, 2, 2, 3, 4]))
        for j in range(5):
            cases.append(mk_case(rng, items, file=(j == 0)))
    for _ in range(ctx.n(40, 800)):
        items = gen_deep(rng)
        for j in range(2):
            c = mk_case(rng, items, file=(j == 0)); c["tags"] = c["tags"] + ["deep"]
            cases.append(c)
    if ctx.tier == "thorough" and ctx.scale == 1.0:
        import itertools
        toks = ["a", "1", ";", "b", "{", "}"]      # a 1 ; b { }
        for gaps in itertools.product(["", " ", "\n", "\r\n", "\t"], repeat=7):
            if gaps[1] == "" or (gaps[3] == "" and False):
                continue
            text = gaps[0] + "".join(t + g for t, g in zip(toks, gaps[1:]))
            cases.append({"kind": "render", "text": text, "den": enc({"a": 1, "b": {}}), "file": False})
        ctx.exhaustive.append("all layouts over {'', ' ', LF, CRLF, TAB} for the 6-token document `a 1 ; b { }`")
    process(ctx, cases)


def replay(ctx: Ctx, case: dict) -> None:
    process(ctx, [case] * 3)       # the shared parser object carries state from text to text


def shrink_violation(v: dict) -> dict:
    c = v["input"]
    what = v["what"]

    def fails(text):
        x = Ctx(ID, "quick", 0, oracle_only=True)
        process(x, [{**c, "text": text}])
        return any(y.get("what") == what for y in x.violations)
    # only shrink white space and comment bodies: keep the denotation fixed
    return v


def _d27(v: dict) -> bool:
    t = v["input"].get("text", "")
    return re.search(r"\*/\s*/", t) is not None and re.search(r"\*//", t) is not None


def _w27() -> bool:
    from dictIO import NativeParser, SDict
    try:
        r = impl.plain(NativeParser().parse_string("/* a */// b\nk 1;\n", SDict()))
        return spec.strip_placeholders(r) != {"k": 1}
    except Exception:  # noqa: BLE001
        return True


KNOWN_CLASSES: dict = {}      # D27 (adjacent comments) does not change the *data*; it is a finding of C12
WITNESSES: dict = {}
