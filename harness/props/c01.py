"""C01 -- native dict files: what is written is what is read back (three public routes).
Also the shared round-trip machinery used by C10 (OpenFOAM flavour)."""
from __future__ import annotations

import copy
import itertools
import os
import re
import zlib

import gen
import impl
import spec
from common import Ctx, canon_floats, dec, enc, enc_entries, same, shrink, reset_globals

ID = "C01"
RULE = ("dicts of the supported value domain (int/str single-word keys, nesting with leaf paths <= 10, lists of lists/dicts, "
        "empty containers, numpy arrays, string leaves by class: word/empty/multi-word/path/delimiter-bearing/one inner quoted "
        "segment/backslash/non-ASCII incl. exotic blanks and digits/number-like/bool-none-like/placeholder look-alikes) through "
        "formatter+parser, DictWriter+DictReader, dump+load; compared: model fmtPlain bytes vs NativeFormatter.to_string, model "
        "parseNative vs NativeParser.parse_string on the implementation's text (data + all side tables + counter); oracle: "
        "read(write(d)) == norm(d) with types and order; non-trivial = contains a container or a string that needs quoting")
ASSUMPTIONS = ["regex stages of the reader are replaced by hand-written scanners in the model (DESIGN 4.3); agreement is checked here",
               "file encoding / newline translation of open() is Python's", "floats compared through repr"]

RESERVED_RE = re.compile(r"COMMENT|INCLUDE|STRINGLITERAL|EXPRESSION|_variables|_includes")
LINEBREAKS = "\n\r"          # \\x0b \\x0c \\x1c-\\x1e \\x85 U+2028 U+2029 are ordinary characters of a single-line string (gen class "linesep")


def str_in_dom(s: str, foam: bool = False) -> bool:
    """DomC01 for one string leaf (DESIGN 7/C01)"""
    if any(c in s for c in LINEBREAKS) or "$" in s:
        return False
    if "//" in s and re.search(r"(?<!:)//", s):
        return False
    if "/*" in s or "*/" in s or RESERVED_RE.search(s):
        return False
    if re.search(r"\\['\"]", s):
        return False
    if "'" in s and '"' in s:
        return False
    if foam and '"' in s:
        return False
    for q in "'\"":
        if s.count(q) > 2:
            return False
    return True


def key_in_dom(k) -> bool:
    if isinstance(k, bool):
        return False
    if isinstance(k, int):
        return True
    # a key that starts with `#include` *is* the include directive of the documented syntax, not a data key
    return isinstance(k, str) and gen.is_plain_word(k) and k not in ("-", "_", ".") and not k.startswith("#include")


def in_dom(v, depth: int = 0, foam: bool = False) -> bool:
    if isinstance(v, dict):
        return depth < 10 and all(key_in_dom(k) and in_dom(x, depth + 1, foam) for k, x in v.items())
    if isinstance(v, list):
        return depth < 10 and all(in_dom(x, depth + 1, foam) for x in v)
    if isinstance(v, str):
        return str_in_dom(v, foam)
    if isinstance(v, float):
        return v == v and abs(v) != float("inf")
    return True


def leaf(rng, foam=False):
    for _ in range(20):
        x = gen.scalar(rng)
        if in_dom(x, foam=foam):
            return x
    return "w"


def gen_dict(rng, foam=False, underscore=0.0):
    depth = rng.choice([1, 2, 2, 3, 3, 4, 6, 9])

    def keyf(r):
        k = gen.key(r)
        if underscore and r.random() < underscore:
            return "_" + gen.word(r, 4)
        return k
    d = gen.tree_dict(rng, depth, rng.randint(1, 5), leaf=lambda r: leaf(r, foam), key_fn=keyf, p_dict=0.3, p_list=0.2)
    return d if in_dom_keys_ok(d) else {}


def in_dom_keys_ok(d) -> bool:
    def ok(v):
        if isinstance(v, dict):
            for k, x in v.items():
                kk = k[1:] if isinstance(k, str) and k.startswith("_") and len(k) > 1 else k
                if not key_in_dom(kk) or not ok(x):
                    return False
            return True
        if isinstance(v, list):
            return all(ok(x) for x in v)
        return True
    return ok(d)


def _nontrivial(v) -> bool:
    if isinstance(v, dict):
        return any(isinstance(x, (dict, list)) or _nontrivial(x) for x in v.values())
    if isinstance(v, list):
        return True
    if isinstance(v, str):
        return not gen.is_plain_word(v)
    return False


# ---------------------------------------------------------------------------------------------------
def formatter(fl):
    from dictIO import FoamFormatter, NativeFormatter
    return NativeFormatter() if fl == "native" else FoamFormatter()


def parser(fl):
    from dictIO import FoamParser, NativeParser
    return NativeParser() if fl == "native" else FoamParser()


def sd_json(s) -> dict:
    return {"data": enc_entries(impl.plain(dict(s))),
            "exprs": [[i, [e["expression"], e["name"]]] for i, e in s.expressions.items()],
            "lineC": [[i, t] for i, t in s.line_comments.items()],
            "blockC": [[i, t] for i, t in s.block_comments.items()],
            "incl": [[i, [e[0], e[1], str(e[2])]] for i, e in s.includes.items()]}


def impl_parse_text(text: str, fl: str = "native", comments: bool = True, start: int | None = None):
    """parse_string on a fresh SDict with a reset counter; returns sd-json + counter, or 'raises:X'"""
    from dictIO import SDict
    from dictIO.utils.counter import BorgCounter
    reset_globals(start)
    try:
        s = parser(fl).parse_string(text, SDict(), comments=comments)
    except RecursionError:
        return {"perr": "tooDeep"}
    except Exception as e:  # noqa: BLE001
        return "raises:" + type(e).__name__
    return {"sd": sd_json(s), "counter": BorgCounter.Borg["theCount"]}


def expected(d, fl):
    return spec.norm(d)


def with_numpy(d: dict) -> dict:
    import numpy as np
    out = {}
    for k, v in d.items():
        if k == "points" and isinstance(v, list):
            out[k] = [np.array(x) if isinstance(x, list) else x for x in v]       # arrays as items of a Python list
        elif k == "deep" and isinstance(v, dict):
            out[k] = {kk: ([np.array(x) if isinstance(x, list) else x for x in vv] if isinstance(vv, list) else vv) for kk, vv in v.items()}
        else:
            out[k] = np.array(v) if isinstance(v, list) else v
    return out


_SHARED: dict = {}


class _Str(str):
    pass


def type_variant(v):
    import collections
    import enum
    if isinstance(v, dict):
        return collections.OrderedDict((k, type_variant(x)) for k, x in v.items())
    if isinstance(v, list):
        return [type_variant(x) for x in v]
    if isinstance(v, str):
        return _Str(v)
    if isinstance(v, int) and not isinstance(v, bool) and abs(v) < 2**31:
        return enum.IntEnum("E", {"A": v}).A
    return v


def aliased_twin(v):
    """`v` plus two more references to one of its own non-empty nested dicts (as a value and inside a list); None if it has none"""
    if not isinstance(v, dict):
        return None
    for k, x in v.items():
        if isinstance(x, dict) and x and isinstance(k, str):
            out = copy.deepcopy(v)
            shared = out[k]
            out["zzAgain"] = shared
            out["zzList"] = [shared, shared]
            return out
    return None


def same_size_twin(v):
    """a dict that differs from `v` in exactly one leaf, the leaf's spelling having the same length (a digit or a letter
    replaced by its neighbour); None if `v` has no such leaf"""
    done = [False]

    def go(x):
        if done[0]:
            return x
        if isinstance(x, dict):
            return {k: go(y) for k, y in x.items()}
        if isinstance(x, list):
            return [go(y) for y in x]
        if isinstance(x, bool) or x is None:
            return x
        if isinstance(x, int) and 1 <= abs(x) % 10 <= 8:
            done[0] = True
            return x + (1 if x > 0 else -1)
        if isinstance(x, str):
            for i, ch in enumerate(x):
                if ch.isascii() and ch.isalpha() and ch not in "zZeE":
                    y = x[:i] + chr(ord(ch) + 1) + x[i + 1:]
                    if y.lower() in ("true", "false", "on", "off", "none", "null") or x.lower() in ("true", "false", "on", "off", "none", "null"):
                        return x
                    done[0] = True
                    return y
        return x
    r = go(v)
    return r if done[0] else None


def loose_twin(v):
    """a value that compares == to v in Python (dict order ignored, 1 == 1.0 == True) without being the same data"""
    if isinstance(v, dict):
        return {k: loose_twin(x) for k, x in reversed(list(v.items()))}
    if isinstance(v, list):
        return [loose_twin(x) for x in v]
    t = gen.numeric_twin(v)
    return v if t is None else t


def oracle_routes(ctx: Ctx, case: dict, d: dict, fl: str, suffix: str = "") -> None:
    from dictIO import DictReader, DictWriter, SDict
    exp = expected(d, fl)
    if case.get("np"):
        d = with_numpy(d)
    # route 1: formatter + parser on strings
    try:
        text = formatter(fl).to_string(copy.deepcopy(d))
        reset_globals()
        r1 = impl.plain(parser(fl).parse_string(text, SDict()))
    except Exception as e:  # noqa: BLE001
        ctx.violation("route formatter+parser raises", case, repr(e), enc(exp)); return
    if not same(r1, exp):
        ctx.violation("route formatter+parser: read back differs from what was written", case, enc(r1), enc(exp),
                      replay={**case, "route": 1})
    # one formatter and one parser object used for every case of the run (state carried between calls)
    try:
        if fl not in _SHARED:
            _SHARED[fl] = (formatter(fl), parser(fl))
        ts = _SHARED[fl][0].to_string(copy.deepcopy(d))
        reset_globals()
        rs = impl.plain(_SHARED[fl][1].parse_string(text, SDict()))
    except Exception as e:  # noqa: BLE001
        ctx.violation("a formatter / parser object that is used again raises", case, repr(e), enc(exp)); return
    if ts != text or not same(rs, r1):
        ctx.violation("a formatter / parser object that was used before behaves differently from a fresh one", case,
                      {"text": ts, "read": enc(rs)}, {"text": text, "read": enc(r1)})
    # route 2: DictWriter + DictReader
    try:
        with impl.scratch() as td:
            reset_globals()
            DictWriter.write(copy.deepcopy(d), td / ("f" + suffix), mode="w")
            r2 = spec.strip_placeholders(impl.plain(DictReader.read(td / ("f" + suffix))))
            reset_globals()
            SDict(copy.deepcopy(d)).dump(td / ("g" + suffix))
            r3 = spec.strip_placeholders(impl.plain(SDict().load(td / ("g" + suffix))))
    except Exception as e:  # noqa: BLE001
        ctx.violation("file route raises", case, repr(e), enc(exp)); return
    # route 2 onto an existing target (mode "w" replaces it): the file already holds a dict that is ==-equal to d in Python's
    # loose sense but not the same (key order reversed, 1 / 1.0 / True swapped)
    tw = loose_twin(d)
    if not case.get("np") and enc(tw) != enc(d):
        try:
            with impl.scratch() as td:
                reset_globals()
                DictWriter.write(copy.deepcopy(tw), td / ("f" + suffix), mode="w")
                DictWriter.write(copy.deepcopy(d), td / ("f" + suffix), mode="w")
                r2b = spec.strip_placeholders(impl.plain(DictReader.read(td / ("f" + suffix))))
        except Exception as e:  # noqa: BLE001
            ctx.violation("file route (existing target) raises", case, repr(e), enc(exp)); return
        if fl == "foam":
            r2b = {k: v for k, v in r2b.items() if k != "FoamFile"}
        if not same(r2b, exp):
            ctx.violation("route DictWriter(mode w onto an existing, loosely equal file)+DictReader: read back differs from what was written", case, enc(r2b), enc(exp))
    # the same dict / list OBJECT referenced at several places of the input (no cycle): every occurrence is written
    al = aliased_twin(d)
    if al is not None and not case.get("np") and in_dom(al, foam=(fl == "foam")):      # (the extra list level must stay inside the depth domain)
        try:
            exp_al = expected(copy.deepcopy(al), fl)
            text_al = formatter(fl).to_string(al)
            reset_globals()
            r_al = impl.plain(parser(fl).parse_string(text_al, SDict()))
            with impl.scratch() as td:
                reset_globals()
                DictWriter.write(al, td / ("al" + suffix), mode="w")
                r_al2 = spec.strip_placeholders(impl.plain(DictReader.read(td / ("al" + suffix))))
            if fl == "foam":
                r_al2 = {k: v for k, v in r_al2.items() if k != "FoamFile"}
            ctx.tag("aliased-subobjects")
            if not same(r_al, exp_al) or not same(r_al2, exp_al):
                ctx.violation("a dict in which one dict / list object is referenced at several places is not read back as written", case,
                              enc(r_al if not same(r_al, exp_al) else r_al2), enc(exp_al))
        except Exception as e:  # noqa: BLE001
            ctx.violation("a dict with a shared sub-object: write/read raises", case, repr(e), "round trip")
    # the same path written again with different content of the same size and the same time stamps (coarse file-system
    # clocks, cp -p, restored backups): what is read must be what is in the file now, through read and through load
    tw2 = same_size_twin(d)
    if tw2 is not None and not case.get("np") and zlib.crc32(repr(d).encode()) % 3 == 0:
        try:
            with impl.scratch() as td:
                p = td / ("s" + suffix)
                reset_globals()
                DictWriter.write(copy.deepcopy(tw2), p, mode="w")
                _ = DictReader.read(p); _ = SDict().load(p)
                st = os.stat(p)
                DictWriter.write(copy.deepcopy(d), p, mode="w")
                os.utime(p, ns=(st.st_atime_ns, st.st_mtime_ns))
                if os.stat(p).st_size == st.st_size:
                    ctx.tag("same-stat-rewrite")
                    rs2 = spec.strip_placeholders(impl.plain(DictReader.read(p)))
                    rs3 = spec.strip_placeholders(impl.plain(SDict().load(p)))
                    if fl == "foam":
                        rs2 = {k: v for k, v in rs2.items() if k != "FoamFile"}; rs3 = {k: v for k, v in rs3.items() if k != "FoamFile"}
                    if not same(rs2, exp) or not same(rs3, exp):
                        ctx.violation("file route: a file rewritten with different content of the same size and time stamps is read back as the old content",
                                      case, enc(rs2 if not same(rs2, exp) else rs3), enc(exp))
        except Exception as e:  # noqa: BLE001
            ctx.violation("file route (same path rewritten) raises", case, repr(e), enc(exp)); return
    # the same data handed over in other argument types: OrderedDict / str subclass / IntEnum values, path as str and PurePath
    if not case.get("np") and zlib.crc32(repr(d).encode()) % 4 == 0:
        try:
            with impl.scratch() as td:
                reset_globals()
                DictWriter.write(type_variant(copy.deepcopy(d)), str(td / ("v" + suffix)), mode="w")
                rv = spec.strip_placeholders(impl.plain(DictReader.read(str(td / ("v" + suffix)))))
                import pathlib
                rv2 = spec.strip_placeholders(impl.plain(DictReader.read(pathlib.PurePosixPath(str(td / ("v" + suffix))))))
        except Exception as e:  # noqa: BLE001
            ctx.violation("file route with other argument types (OrderedDict, str subclass, IntEnum, str / PurePath paths) raises", case, repr(e), enc(exp)); return
        if fl == "foam":
            rv = {k: v for k, v in rv.items() if k != "FoamFile"}; rv2 = {k: v for k, v in rv2.items() if k != "FoamFile"}
        if not same(rv, exp) or not same(rv2, exp):
            ctx.violation("file route with other argument types (OrderedDict, str subclass, IntEnum, str / PurePath paths): read back differs", case, enc(rv), enc(exp))
    exp_f = exp
    if fl == "foam":
        r3 = {k: v for k, v in r3.items() if k != "FoamFile"}
    if not same(r2, exp_f):
        ctx.violation("route DictWriter+DictReader: read back differs from what was written", case, enc(r2), enc(exp_f), replay={**case, "route": 2})
    if not same(r3, exp_f):
        ctx.violation("route dump+load: read back differs from what was written", case, enc(r3), enc(exp_f), replay={**case, "route": 3})


def process(ctx: Ctx, cases: list[dict], fl: str = "native", expected_fn=None, suffix: str = "") -> None:
    from dictIO import SDict
    global expected
    reqs = []
    texts = []
    for c in cases:
        if c["kind"] == "dict":
            d = dec(c["d"])
            if c.get("np"):
                d = with_numpy(d)
            try:
                text = formatter(fl).to_string(copy.deepcopy(d))
            except Exception as e:  # noqa: BLE001
                text = None
            texts.append(text)
            reqs.append({"op": "fmt_plain", "fl": fl, "e": c["d"]["d"]})
            reqs.append({"op": "parse_native", "text": text if text is not None else "", "start": -1})
        elif c["kind"] == "text":
            texts.append(c["text"])
            reqs.append({"op": "parse_native", "text": c["text"], "start": c.get("start", -1), "comments": c.get("comments", True)})
    replies = None if ctx.oracle_only else ctx.driver(reqs)
    ri = 0
    for c, text in zip(cases, texts):
        if c["kind"] == "dict":
            d = dec(c["d"])
            ctx.case(c, _nontrivial(d), ("dict",))
            if expected_fn is None:
                oracle_routes(ctx, c, d, fl, suffix)
            else:
                expected_fn(ctx, c, d)
            if replies is not None:
                mf, mp = replies[ri], replies[ri + 1]; ri += 2
                if text is None:
                    continue
                if mf != text:
                    ctx.disagree(f"{type(formatter(fl)).__name__}.to_string (bytes)", c, mf, text)
                ip = impl_parse_text(text, fl)
                if isinstance(mp, dict) and mp.get("perr") in ("unsupported", "malformed"):
                    ctx.unsupported += 1
                elif canon_floats(mp) != ip:
                    ctx.disagree(f"{type(parser(fl)).__name__}.parse_string on the written text", c, mp, ip)
        else:
            ctx.case(c, True, ("text",))
            ip = impl_parse_text(c["text"], fl, c.get("comments", True), c.get("start"))
            if replies is not None:
                mp = replies[ri]; ri += 1
                if isinstance(mp, dict) and mp.get("perr") in ("unsupported", "malformed"):
                    ctx.unsupported += 1
                elif canon_floats(mp) != ip:
                    ctx.disagree("parse_string on text", c, mp, ip)


def one_key_strings(alpha, n):
    for k in range(n + 1):
        for t in itertools.product(alpha, repeat=k):
            yield "".join(t)


def run(ctx: Ctx) -> None:
    rng = ctx.rng
    cases = []
    for e in getattr(ctx, "fixed_witnesses", []):
        cases.append(e["witness"]); ctx.corpus_cases += 1
    corpus = [{"k": "a;b"}, {"k": "<a>"}, {"k": "{"}, {"a": "it's", "b": "x y"}, {"a": "x y", "b": "say 'x y' ok"}, {"k": "a b", 3: "c d"},
              {"k": "\\abc"}, {"k": "abc\\"}, {"k": 'x "b"'}, {"k": '"b"'}, {"k": "'"}, {"k": ""}, {"k": []}, {"k": {}}, {"k": [[], {}, [[1]]]},
              {"a": {"b": {"c": {"d": {"e": {"f": {"g": {"h": {"i": "deep x"}}}}}}}}}, {"k": "2024-01"}, {"k": "1e5"}, {"k": "TRUE"}, {"k": " "},
              {"k": "\u00a0"}, {"k": "١٢"}, {"x" * 31: 1}, {"l": list(range(21))}, {"l": ["a b"] * 11}, {1: {2: [3, "4"]}}]
    deep: dict = {"j": "deep x", "k": 'say "x" ok'}
    for k in "ihgfedcba":
        deep = {k: deep}                        # nesting depth 9: key paths of 10 entries (the supported maximum)
    deepl: dict = {"items": [1, "deep x", "y"]}
    for k in "hgfedcba":
        deepl = {k: deepl, "s" + k: "x y"}
    corpus += [{"l": [2, 2.0, 1.0, 1, True, 10**16, 1e16, 0, 0.0, False, -0.0, 0]}, {"a": 1, "b": 1.0, "c": True, "m": [[1, 1.0], [1.0, 1]]}]
    corpus += [{"k": ["#", "include", "foo"], "l": ["#", "includes"], "m": "#", "n": ["a", "#"]}]
    corpus += [{"k": list(gen.DIRECTIVE_WORDS), "l": [gen.DIRECTIVE_WORDS[0], "x"], "n": {"m": [[gen.DIRECTIVE_WORDS[1]], {"z": 1}, gen.DIRECTIVE_WORDS[3]]}}]
    corpus += [{"l": [w] + ["x"] * 9 + [w]} for w in gen.DIRECTIVE_WORDS[:6]]          # item 0 and item 10 start a line
    corpus += [{"k": "yes", "l": ["no", "yes", "y", "n", "t", "f", "nil", "~"], "n": {"m": "no"}}]
    corpus += [deep, deepl, {"encoding": "latin-1", "author": "Jörg Müller"}, {"coding": "utf-16", "t": "é"}]
    for d in corpus:
        cases.append({"kind": "dict", "d": enc(d)}); ctx.corpus_cases += 1
    for _ in range(ctx.n(60, 1500)):
        d = gen.meta_dict(rng)                  # data that looks like file metadata (keys/values the library knows, codec names)
        if in_dom(d):
            cases.append({"kind": "dict", "d": enc(d)})
    for _ in range(ctx.n(25, 400)):
        d = gen.size_dict(rng)                  # around size thresholds (counts, lengths, digits)
        if in_dom(d):
            cases.append({"kind": "dict", "d": enc(d)})
    for _ in range(ctx.n(1200, 30000)):
        d = gen_dict(rng)
        if in_dom(d):
            cases.append({"kind": "dict", "d": enc(d)})
    try:
        import numpy as np
        for _ in range(ctx.n(20, 300)):
            w = rng.randint(1, 3)
            arr = [[rng.randint(0, 9) for _ in range(w)] for _ in range(rng.randint(1, 3))]
            cases.append({"kind": "dict", "np": True, "d": enc({"m": arr, "v": [1.5, 2.5], "w": "x"})})
            cases.append({"kind": "dict", "np": True, "d": enc({"points": [[1, 2, 3], [4, 5, 6], 7], "deep": {"rows": [arr[0], [0.5, 1.5]], "n": 1}, "w": "x"})})
    except ImportError:
        pass
    if ctx.scale == 1.0:
        alpha = list("ab1 ;,{}()<>[]'\"\\:/.-_=#x") + ["é", "\t"]
        n = 2 if ctx.tier == "quick" else 3
        for s in one_key_strings(alpha, n):
            if str_in_dom(s):
                cases.append({"kind": "dict", "d": enc({"k": s})})
        ctx.exhaustive.append(f"one key, one string of length <= {n} over a 26-character structural alphabet")
    process(ctx, cases)


def replay(ctx: Ctx, case: dict) -> None:
    case = {k: v for k, v in case.items() if k != "route"}
    process(ctx, [case] * 8)       # several times: the shared formatter / parser objects carry state from call to call


def make_shrinker(fl: str, process_fn):
    def shrink_violation(v: dict) -> dict:
        c = v["input"]
        if c.get("kind") != "dict":
            return v
        what = v["what"]

        def fails(d):
            if not in_dom(d, foam=(fl == "foam")) and not in_dom_keys_ok(d):
                return False
            x = Ctx("Cxx", "quick", 0, oracle_only=True)
            process_fn(x, [{"kind": "dict", "d": enc(d)}])
            return any(y.get("what") == what for y in x.violations)
        d0 = dec(c["d"])
        if not fails(d0):
            return v
        d = shrink(d0, fails, budget=300)
        x = Ctx("Cxx", "quick", 0, oracle_only=True)
        process_fn(x, [{"kind": "dict", "d": enc(d)}])
        return next((y for y in x.violations if y.get("what") == what), v)
    return shrink_violation


shrink_violation = make_shrinker("native", process)


def has_overflow_string(v) -> bool:
    """a string leaf that spells a number too large for a float ('1e400'): typed inf, which has no spelling (D2)"""
    if isinstance(v, dict):
        return any(has_overflow_string(x) for x in v.values())
    if isinstance(v, list):
        return any(has_overflow_string(x) for x in v)
    if isinstance(v, str):
        c = spec.classify(v)
        return isinstance(c, float) and (c != c or abs(c) == float("inf"))
    return False


def _d2_class(v: dict) -> bool:
    c = v["input"]
    return c.get("kind") == "dict" and has_overflow_string(dec(c["d"]))


def _w2() -> bool:
    r = impl.file_roundtrip({"k": "1e400"})
    return r.get("k") == "inf"


KNOWN_CLASSES = {"overflow_number_string": _d2_class}
WITNESSES = {"D2": _w2}
