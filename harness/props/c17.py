"""C17 -- the dictParser command line does exactly what the API does."""
from __future__ import annotations

import itertools
import os
import shutil
import subprocess
import sys
from pathlib import Path

import impl
import spec
from common import Ctx, dec, enc, same, reset_globals

ID = "C17"
RULE = ("matrix of flags (-I, --order, -C, --mode, -o, --scope as word / bracketed list / quoted list, -q/-v, --log) over a generated "
        "source tree with includes, comments, expressions and nested scopes: the command line (in-process main() with sys.argv "
        "patched; a subset as real `python -m dictIO.cli.dict_parser` subprocesses) runs in one scratch copy, DictParser.parse with "
        "the arguments the Lean apiArgs mapping prescribes in another; names and bytes of all produced files are compared; missing "
        "input and invalid option values must write nothing and print no traceback; quick = pairwise-covering subset + 8 "
        "subprocesses, thorough = full matrix; non-trivial = at least one non-default flag")
ASSUMPTIONS = ["argparse's parsing of argv, process start-up and logging set-up are not modelled (correspondence only)"]

SRC = """/* header C++ test */
#include 'sub/inc'
// a comment
a 1;
b "$a + 2";
n
{
    // nested comment
    m { x 1; y 'two words'; }
    k 3;
}
1 { q 5; }
z ( 3 2 1 );
r $fromInc;
"""
INC = "fromInc 7;\nzz 'from include';\n"
LISTSRC = "cases ( { name first; } { name second; } );\nsettings { a 1; }\nscalar 5;\n"


ODD_NAMES = ["~case", "~", "my dict", "$HOME", "${USER}.dict", "%TEMP%", "é.dict", "a.b.c", "*.dict", "src.dict.bak"]
ODD_LOGS = ["~run.log", "$HOME.log", "my log.txt"]


def build(td: Path):
    (td / "sub").mkdir(parents=True)
    (td / "src.dict").write_text(SRC)
    (td / "sub" / "inc").write_text(INC)
    (td / "caseDict").write_text(LISTSRC)
    for nm in ODD_NAMES:                      # the same source under names a shell or path library might want to expand
        (td / nm).write_text(SRC)
    # a folder reached through a symbolic link: `current/../common` is the file next to the link's TARGET (store/common)
    (td / "store" / "case_A").mkdir(parents=True)
    (td / "store" / "common").write_text("where store;\nn 1;\n")
    (td / "common").write_text("where here;\nn 2;\n")
    os.symlink(Path("store") / "case_A", td / "current", target_is_directory=True)
    (td / "src2.json").write_text('{"load case": {"wind speed": {"v": 12.5}, "x": 1}, "plain": {"y": 2}, "n": {"m": {"z": 3}}}')


def snapshot(td: Path) -> dict:
    return {str(p.relative_to(td)): p.read_bytes() for p in sorted(td.rglob("*")) if p.is_file()}


def argv_of(o: dict) -> list[str]:
    a = [o.get("src", "src.dict")]
    if o["I"]:
        a.append(o["Iflag"])
    if o["order"]:
        a.append("--order")
    if o["C"]:
        a.append(o["Cflag"])
    if o["mode"]:
        a += ["--mode", o["mode"]]
    if o["output"]:
        a += [o["oflag"], o["output"]]
    if o["scope"] is not None:
        a += ["--scope", o["scope"]]
    if o["verb"]:
        a.append(o["verb"])
    if o["log"]:
        a += ["--log", o.get("logname", "run.log")]
    return a


def api_kwargs(ctx: Ctx, o: dict) -> dict:
    """the arguments `apiArgs` (Lean, regenerated from main()) prescribes; the scope goes through validateScope of the model"""
    includes, comments = (not o["I"]), (not o["C"])
    scope = spec.validate_scope(o["scope"])      # the documented reading (independent of the code under test)
    return {"includes": includes, "mode": o["mode"] or "w", "order": o["order"], "comments": comments, "scope": scope, "output": o["output"] or "cpp"}


def run_cli_inprocess(td: Path, argv: list[str]):
    from dictIO.cli import dict_parser as cli
    old_argv, old_cwd = sys.argv, os.getcwd()
    import io, contextlib, logging
    err = io.StringIO()
    code = 0
    try:
        os.chdir(td)
        sys.argv = ["dictParser"] + argv
        reset_globals()
        with contextlib.redirect_stderr(err), contextlib.redirect_stdout(io.StringIO()):
            try:
                cli.main()
            except SystemExit as e:
                code = e.code if isinstance(e.code, int) else 1
            except Exception as e:  # noqa: BLE001  -- e.g. a dict that the chosen output format cannot serialise
                code = "raises:" + type(e).__name__
    finally:
        sys.argv = old_argv
        os.chdir(old_cwd)
        root = logging.getLogger()
        for h in list(root.handlers):
            root.removeHandler(h)
            try:
                h.close()
            except Exception:  # noqa: BLE001
                pass
        logging.disable(logging.CRITICAL)
    return code, err.getvalue()


def run_api(td: Path, kw: dict, src: str = "src.dict"):
    from dictIO import DictParser
    old_cwd = os.getcwd()
    try:
        os.chdir(td)
        reset_globals()
        try:
            DictParser.parse(Path(src), **kw)
            return 0
        except SystemExit as e:
            return e.code if isinstance(e.code, int) else 1
        except Exception as e:  # noqa: BLE001
            return "raises:" + type(e).__name__
    finally:
        os.chdir(old_cwd)


def process(ctx: Ctx, cases: list[dict]) -> None:
    # model: validateScope for every scope text
    scopes = sorted({c["o"]["scope"] for c in cases if c["kind"] == "run" and c["o"]["scope"] is not None})
    mscope = {}
    if not ctx.oracle_only and scopes:
        from dictIO.cli.dict_parser import _validate_scope
        for s in scopes:
            r = ctx.driver([{"op": "validate_scope", "s": s}])[0]
            mscope[s] = None if r == "none" else [dec(x) for x in r]
            iv = _validate_scope(s)
            if not same(mscope[s], spec.validate_scope(s)):
                ctx.disagree("validateScope (model) vs documented reading", {"scope": s}, enc(mscope[s]) if mscope[s] is not None else None, enc(spec.validate_scope(s)))
            if not same(mscope[s], iv):
                ctx.disagree("_validate_scope", {"scope": s}, enc(mscope[s]) if mscope[s] is not None else None, enc(iv) if iv is not None else None)
    for c in cases:
        if c["kind"] == "run":
            o = dict(c["o"])
            o["_mscope"] = mscope.get(o["scope"]) if o["scope"] is not None else None
            argv = argv_of(o)
            nondefault = any([o["I"], o["order"], o["C"], o["mode"], o["output"], o["scope"] is not None])
            ctx.case({"argv": argv}, nondefault, tuple(x for x in argv[1:] if x.startswith("-")))
            with impl.scratch() as t1, impl.scratch() as t2:
                build(t1); build(t2)
                if o.get("pre"):
                    # the target exists already (an earlier run with other content): append mode merges into it
                    from dictIO import DictWriter, create_target_file_name
                    try:
                        tn = create_target_file_name(Path(o.get("src", "src.dict")), prefix="parsed", scope=spec.validate_scope(o["scope"]), output=o["output"]).name
                        for t in (t1, t2):
                            reset_globals()
                            DictWriter.write({"zz_old": 1, "n": {"old": 1, "aa": 2}, "beta": "x", "alpha": "y"}, t / tn, mode="w")
                    except Exception:  # noqa: BLE001
                        pass
                if c.get("subprocess"):
                    env = dict(os.environ); env["PYTHONPATH"] = "/repo/src"; env["PYTHONDONTWRITEBYTECODE"] = "1"
                    p = subprocess.run(["/venv/bin/python", "-m", "dictIO.cli.dict_parser"] + argv, cwd=t1, env=env, capture_output=True, text=True, timeout=120)
                    code, err = p.returncode, p.stderr
                else:
                    code, err = run_cli_inprocess(t1, argv)
                acode = run_api(t2, api_kwargs(ctx, o), o.get("src", "src.dict"))
                s1, s2 = snapshot(t1), snapshot(t2)
                s1.pop(o.get("logname", "run.log"), None)
                if "Traceback" in err and not (isinstance(acode, str) and acode.startswith("raises:")):
                    ctx.violation("the command line printed a traceback", {"argv": argv}, err[-500:], "no traceback")
                if isinstance(code, str) != isinstance(acode, str) and not c.get("subprocess"):
                    ctx.violation("command line and API do not fail alike", {"argv": argv}, code, acode, replay=c)
                if set(s1) != set(s2):
                    ctx.violation("command line and API produce different files", {"argv": argv}, sorted(set(s1) ^ set(s2)), "same file names",
                                  replay=c)
                else:
                    diff = [k for k in s1 if s1[k] != s2[k]]
                    if diff:
                        ctx.violation("command line and API produce different bytes", {"argv": argv}, {k: s1[k].decode(errors="replace")[:400] for k in diff},
                                      {k: s2[k].decode(errors="replace")[:400] for k in diff}, replay=c)
        elif c["kind"] == "bad":
            ctx.case(c, True, ("bad",))
            with impl.scratch() as t1:
                build(t1)
                before = snapshot(t1)
                env = dict(os.environ); env["PYTHONPATH"] = "/repo/src"; env["PYTHONDONTWRITEBYTECODE"] = "1"
                if c.get("subprocess"):
                    p = subprocess.run(["/venv/bin/python", "-m", "dictIO.cli.dict_parser"] + c["argv"], cwd=t1, env=env, capture_output=True, text=True, timeout=120)
                    code, err = p.returncode, p.stderr + p.stdout
                else:
                    code, err = run_cli_inprocess(t1, c["argv"])
                after = snapshot(t1)
                after.pop("run.log", None)
                if after != before:
                    ctx.violation("a command that must fail wrote something", c, sorted(set(after) ^ set(before)), "nothing written")
                if "Traceback" in err:
                    ctx.violation("a failing command printed a traceback", c, err[-500:], "no traceback")
        elif c["kind"] == "scope_equiv":
            # a word and the bracketed list of that word select the same sub-dict
            ctx.case(c, True, ("scope_equiv",))
            outs = []
            for sc in (c["word"], f"[{c['word']}]", f"['{c['word']}']"):
                with impl.scratch() as t1:
                    build(t1)
                    run_cli_inprocess(t1, ["src.dict", "--scope", sc])
                    s = snapshot(t1)
                    outs.append({k: v for k, v in s.items() if k.startswith("parsed")})
            if not (outs[0] == outs[1] == outs[2]):
                ctx.violation("scope given as a word and as a bracketed list select different sub-dicts", c, [sorted(o) for o in outs], "same output")


def all_options():
    for I, order, C, mode, output, scope, verb, log in itertools.product(
            [False, True], [False, True], [False, True], [None, "a", "w"], [None, "cpp", "foam", "xml", "json"],
            [None, "n", "[n, m]", "['n', 'm']", "[1]"], [None, "-q", "-v"], [False, True]):
        yield {"I": I, "Iflag": "-I", "order": order, "C": C, "Cflag": "-C", "mode": mode, "output": output, "oflag": "-o", "scope": scope, "verb": verb, "log": log}


def run(ctx: Ctx) -> None:
    rng = ctx.rng
    cases = []
    for e in getattr(ctx, "fixed_witnesses", []):
        cases.append(e["witness"]); ctx.corpus_cases += 1
    opts = list(all_options())
    if ctx.tier == "quick":
        # pairwise-ish covering subset: greedy on value pairs
        rng.shuffle(opts)
        seen, chosen = set(), []
        keys = ["I", "order", "C", "mode", "output", "scope", "verb", "log"]
        for o in opts:
            pairs = {(a, o[a], b, o[b]) for a, b in itertools.combinations(keys, 2)}
            if not pairs <= seen:
                chosen.append(o); seen |= pairs
            if len(chosen) >= ctx.n(60, 60):
                break
        opts = chosen
    else:
        ctx.exhaustive.append("complete flag matrix (2*2*2*3*5*5*3*2 = 3600 combinations)")
    for i, o in enumerate(opts):
        o = dict(o)
        o["pre"] = (o["mode"] == "a") or rng.random() < 0.2
        if rng.random() < 0.3:
            o["Iflag"] = "--ignore-includes"; o["Cflag"] = "--ignore-comments"; o["oflag"] = "--output"
        cases.append({"kind": "run", "o": o, "subprocess": (ctx.tier == "quick" and (i < 8 or (o["mode"] == "a" and i < 30))) or (ctx.tier == "thorough" and (i % 40 == 0 or (o["mode"] == "a" and i % 10 == 0)))})
    for sc in ("load case", "['load case']", "['load case', 'wind speed']", "[ n , m ]", "[n,m]", "plain", '["load case"]'):
        cases.append({"kind": "run", "subprocess": False, "o": {"src": "src2.json", "I": False, "Iflag": "-I", "order": False, "C": False, "Cflag": "-C", "mode": None,
                                                               "output": rng.choice([None, "json"]), "oflag": "-o", "scope": sc, "verb": None, "log": False}})
    for nm in ODD_NAMES:
        for _ in range(2):
            o = dict(rng.choice(opts)); o["src"] = nm
            if o["scope"] is not None and rng.random() < 0.5:
                o["scope"] = None
            if o["log"]:
                o["logname"] = rng.choice(ODD_LOGS)
            cases.append({"kind": "run", "o": o, "subprocess": nm in ("~case", "$HOME")})
    # the input named through a symbolic link to a folder and `..`; an input that does not exist, spelled through a folder
    # that does not exist either (the operating system does not find it: the command must fail and write nothing)
    for _ in range(2):
        o = dict(rng.choice(opts)); o["src"] = "current/../common"; o["scope"] = None; o["log"] = False
        cases.append({"kind": "run", "o": o, "subprocess": False})
    for argv in (["nowhere/../src.dict"], ["sub/missing/../../src.dict", "--order"], ["nowhere/../common", "-o", "json"]):
        cases.append({"kind": "bad", "argv": argv, "subprocess": False})
    for bad in ("aw", "", "wa", "A", "a ", "append", "a\n", "w+", "x"):
        cases.append({"kind": "bad", "argv": ["src.dict", "--mode", bad], "subprocess": bad == "aw"})
        cases.append({"kind": "bad", "argv": ["src.dict", f"--mode={bad}"], "subprocess": False})
    for bad in ("js", "jsonx", "", "JSON", "cpp ", "xm"):
        cases.append({"kind": "bad", "argv": ["src.dict", "--output", bad], "subprocess": False})
    for argv, sub in ((["nope.dict"], True), (["nope.dict", "-o", "json"], False), (["src.dict", "--mode", "x"], True), (["src.dict", "-o", "yaml"], False),
                      (["src.dict", "--log-level", "LOUD"], False), ([], False), (["src.dict", "--unknown"], False)):
        cases.append({"kind": "bad", "argv": argv, "subprocess": sub})
    # scopes that do not name a dict (a list item, the list itself, a scalar, an index out of range): the command fails and writes nothing
    for sc in ("[cases, 0]", "['cases', 0]", " [ cases , 1 ] ", "[cases]", "cases", "[cases, 5]", "[scalar]", "[settings, a]", "[cases, name]"):
        cases.append({"kind": "bad", "argv": ["caseDict", "--scope", sc], "subprocess": sc == "[cases, 0]"})
    for w in ("n", "1", "a"):
        cases.append({"kind": "scope_equiv", "word": w})
    process(ctx, cases)


def replay(ctx: Ctx, case: dict) -> None:
    process(ctx, [case])


def _d25(v: dict) -> bool:
    c = v["input"]
    return c.get("kind") == "scope_equiv" and spec.classify(c["word"]) != c["word"]


def _w25() -> bool:
    from dictIO.cli.dict_parser import _validate_scope
    return _validate_scope("1") == ["1"] and _validate_scope("[1]") == [1]


KNOWN_CLASSES = {"numeric_scope_word": _d25}
WITNESSES = {"D25": _w25}
